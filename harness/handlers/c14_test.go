//go:build verif

package handlers

import (
	"context"
	"fmt"
	"sync"
	"sync/atomic"
	"testing"
	"time"

	"github.com/anishathalye/porcupine"
	"github.com/tokenized/logger"
	"github.com/tokenized/pkg/bitcoin"
	"github.com/tokenized/pkg/wire"
	"github.com/tokenized/spynode/internal/state"
	"github.com/tokenized/spynode/internal/storage"
	"github.com/tokenized/spynode/internal/verifkit"
)

// ---- C14: one peer at a time, then re-request ----------------------------------------------------------
//
// Real code: state.MemPool.AddRequest, state.TxTracker, the trusted and untrusted inv handlers.
// Time only moves by ageing the stored request times (MemPool.VerifAge); wall time between steps
// is microseconds against a 0.1 s margin around the 3 s window.

var c14ctx = logger.ContextWithNoLogger(context.Background())

type c14Conn struct {
	name    string
	trusted bool
	tracker *state.TxTracker
	handle  func(wire.Message) ([]wire.Message, error)
	// ground truth kept by the monitor
	waiting map[int]bool // txids this connection announced while told to wait (not yet asked, not forgotten)
}

type c14Op struct {
	Op   string  `json:"op"` // inv body age confirm check
	Conn int     `json:"conn,omitempty"`
	Txs  []int   `json:"txs,omitempty"`
	Sec  float64 `json:"sec,omitempty"`
}

func (o c14Op) String() string {
	switch o.Op {
	case "inv":
		return fmt.Sprintf("inv(c%d,%v)", o.Conn, o.Txs)
	case "body", "confirm":
		return fmt.Sprintf("%s(%v)", o.Op, o.Txs)
	case "age":
		return fmt.Sprintf("age(%.1fs)", o.Sec)
	}
	return fmt.Sprintf("check(c%d)", o.Conn)
}

type c14Tx struct {
	tx *wire.MsgTx
	id bitcoin.Hash32
}

func c14Txs(n int) []c14Tx {
	var out []c14Tx
	for i := 0; i < n; i++ {
		var h bitcoin.Hash32
		h[0], h[1] = byte(i+1), 0x55
		tx := wire.NewMsgTx(1)
		tx.AddTxIn(wire.NewTxIn(&wire.OutPoint{Hash: h, Index: 0}, []byte{1, 1}))
		tx.AddTxOut(wire.NewTxOut(1, []byte{0x51}))
		tx.LockTime = uint32(i)
		out = append(out, c14Tx{tx: tx, id: *tx.TxHash()})
	}
	return out
}

type c14Env struct {
	mp    *state.MemPool
	conns []*c14Conn
	txs   []c14Tx
	idx   map[bitcoin.Hash32]int
	now   float64 // virtual seconds

	lastReq   map[int]float64 // virtual time of the last emitted request
	haveBody  map[int]bool
	confirmed map[int]bool
}

func newC14Env(nConns, nTxs int) *c14Env {
	e := &c14Env{mp: state.NewMemPool(), txs: c14Txs(nTxs), idx: map[bitcoin.Hash32]int{},
		lastReq: map[int]float64{}, haveBody: map[int]bool{}, confirmed: map[int]bool{}}
	for i, t := range e.txs {
		e.idx[t.id] = i
	}
	st := state.NewState()
	st.SetInSync()
	for c := 0; c < nConns; c++ {
		conn := &c14Conn{name: fmt.Sprintf("c%d", c), trusted: c == 0, tracker: state.NewTxTracker(), waiting: map[int]bool{}}
		if conn.trusted {
			h := NewInvHandler(st, storage.NewTxRepository(verifkit.NewStore(false)), conn.tracker, e.mp)
			conn.handle = func(m wire.Message) ([]wire.Message, error) { return h.Handle(c14ctx, m) }
		} else {
			us := state.NewUntrustedState()
			us.SetVerified()
			h := NewUntrustedInvHandler(us, conn.tracker, e.mp)
			conn.handle = func(m wire.Message) ([]wire.Message, error) { return h.Handle(c14ctx, m) }
		}
		e.conns = append(e.conns, conn)
	}
	return e
}

type c14Transmitter struct{ msgs []wire.Message }

func (t *c14Transmitter) TransmitMessage(m wire.Message) bool { t.msgs = append(t.msgs, m); return true }

type c14Viol struct{ rule, detail string }

const c14Margin = 0.1

// requested extracts tx indexes from getdata messages.
func (e *c14Env) requested(msgs []wire.Message) []int {
	var out []int
	for _, m := range msgs {
		if gd, ok := m.(*wire.MsgGetData); ok {
			for _, iv := range gd.InvList {
				if iv.Type == wire.InvTypeTx {
					out = append(out, e.idx[iv.Hash])
				}
			}
		}
	}
	return out
}

// judgeEmitted checks every emitted request against the window / body / confirmation rules.
func (e *c14Env) judgeEmitted(conn *c14Conn, via string, reqs []int) *c14Viol {
	seen := map[int]bool{}
	for _, t := range reqs {
		if seen[t] {
			return &c14Viol{"duplicate-in-one-burst/" + via, fmt.Sprintf("tx%d requested twice at once from %s (%d requests in the burst)", t, conn.name, len(reqs))}
		}
		seen[t] = true
		if e.haveBody[t] {
			return &c14Viol{"request-after-body/" + via, fmt.Sprintf("tx%d requested from %s at %.1fs although its body had arrived", t, conn.name, e.now)}
		}
		if e.confirmed[t] && via == "check" {
			return &c14Viol{"request-after-confirmation/" + via, fmt.Sprintf("tx%d requested from %s by the periodic check after it was confirmed", t, conn.name)}
		}
		if last, ok := e.lastReq[t]; ok && e.now-last < 3-c14Margin {
			return &c14Viol{"second-request-inside-window/" + via, fmt.Sprintf("tx%d requested from %s at %.1fs, previous request at %.1fs", t, conn.name, e.now, last)}
		}
		e.lastReq[t] = e.now
		delete(conn.waiting, t)
	}
	return nil
}

func (e *c14Env) apply(op c14Op) *c14Viol {
	switch op.Op {
	case "age":
		e.mp.VerifAge(time.Duration(op.Sec * float64(time.Second)))
		e.now += op.Sec
	case "inv":
		conn := e.conns[op.Conn]
		inv := wire.NewMsgInv()
		for _, t := range op.Txs {
			h := e.txs[t].id
			inv.AddInvVect(wire.NewInvVect(wire.InvTypeTx, &h))
		}
		resp, err := conn.handle(inv)
		if err != nil {
			return &c14Viol{"inv-handler-error", err.Error()}
		}
		reqs := e.requested(resp)
		got := map[int]bool{}
		for _, t := range reqs {
			got[t] = true
		}
		// obligations: announced, no body, no active request => must be requested now
		for _, t := range op.Txs {
			if e.haveBody[t] || e.confirmed[t] {
				continue
			}
			last, asked := e.lastReq[t]
			if !got[t] && (!asked || e.now-last > 3+c14Margin) {
				return &c14Viol{"announcement-not-requested/inv", fmt.Sprintf("%s announced tx%d at %.1fs with no request active (last %.1fs, asked=%v) but it was not requested", conn.name, t, e.now, last, asked)}
			}
			if !got[t] {
				conn.waiting[t] = true
			}
		}
		if v := e.judgeEmitted(conn, "inv", reqs); v != nil {
			return v
		}
	case "body":
		for _, t := range op.Txs {
			// what processUnconfirmedTx does first: forget on the trusted tracker, add to the mempool
			e.conns[0].tracker.Remove(c14ctx, e.txs[t].id)
			e.mp.AddTransaction(c14ctx, e.txs[t].tx, false)
			e.haveBody[t] = true
		}
	case "confirm":
		var ids []*bitcoin.Hash32
		for _, t := range op.Txs {
			id := e.txs[t].id
			ids = append(ids, &id)
			e.mp.RemoveTransaction(id) // ProcessBlock, when in sync
			e.confirmed[t] = true
			delete(e.haveBody, t) // the mempool no longer holds it
		}
		for _, c := range e.conns {
			c.tracker.RemoveList(c14ctx, ids) // CleanupBlock
			for _, t := range op.Txs {
				delete(c.waiting, t)
			}
		}
	case "check":
		conn := e.conns[op.Conn]
		tr := &c14Transmitter{}
		if err := conn.tracker.Check(c14ctx, e.mp, tr); err != nil {
			return &c14Viol{"check-error", err.Error()}
		}
		reqs := e.requested(tr.msgs)
		got := map[int]bool{}
		for _, t := range reqs {
			got[t] = true
		}
		// obligation: a connection that was told to wait asks once the window has passed
		for t := range conn.waiting {
			if e.haveBody[t] || e.confirmed[t] {
				delete(conn.waiting, t)
				continue
			}
			if last := e.lastReq[t]; e.now-last > 3+c14Margin && !got[t] {
				stillTracked := false
				for _, id := range conn.tracker.VerifTxids() {
					if id == e.txs[t].id {
						stillTracked = true
					}
				}
				return &c14Viol{"silent-peer-not-rerequested/check", fmt.Sprintf("tx%d was requested at %.1fs and never delivered; %s had announced it and ran its check at %.1fs but no getdata reached the wire (still tracked=%v, transmitted=%d msgs)", t, last, conn.name, e.now, stillTracked, len(tr.msgs))}
			}
		}
		if v := e.judgeEmitted(conn, "check", reqs); v != nil {
			return v
		}
	}
	return nil
}

func TestVerif_C14(t *testing.T) {
	rep := verifkit.NewReport("C14")
	rep.Rule = "sequential: random interleavings (length 30-60) of inv(conn, txid set) on 1 trusted + 3 untrusted connections, body arrival, ageing by 0.5-4 s, confirmation and per-connection tracker checks, over 6 txids; every emitted getdata(tx) is judged against the virtual clock. Concurrent: 4 goroutines announce overlapping sets in a frozen epoch, AddRequest history checked per txid with porcupine. Non-trivial = some txid was announced by two connections and a window expired; distinct by sequence of (op kind, #requests emitted)"
	rep.Assumptions = []string{"virtual time = ageing MemPool.requests through an overlay accessor; the window is probed outside 3 s +/- 0.1 s", "body arrival re-issues the first two calls of processUnconfirmedTx"}
	defer rep.Write()

	c14Bulk(rep)
	ages := []float64{0.5, 1, 2, 2.5, 3.5, 4}
	n := verifkit.N(6000, 500000)
	for ci := 0; ci < n; ci++ {
		if !verifkit.Mine(ci) {
			continue
		}
		ci := ci
		verifkit.RunCase(rep, ci, func() {
			r := verifkit.Rand("C14", ci)
			e := newC14Env(4, 6)
			var ops []c14Op
			fp := ""
			multi := map[int]map[int]bool{}
			expired := false
			steps := 30 + r.Intn(30)
			for s := 0; s < steps; s++ {
				var op c14Op
				switch k := r.Intn(100); {
				case k < 35:
					op = c14Op{Op: "inv", Conn: r.Intn(4)}
					for _, t := range r.Perm(6)[:1+r.Intn(3)] {
						if !e.confirmed[t] { // re-announcement after confirmation is C03's subject
							op.Txs = append(op.Txs, t)
						}
					}
					if len(op.Txs) == 0 {
						continue
					}
					for _, t := range op.Txs {
						if multi[t] == nil {
							multi[t] = map[int]bool{}
						}
						multi[t][op.Conn] = true
					}
				case k < 45:
					// body of a requested tx arrives
					var cand []int
					for t := range e.lastReq {
						if !e.haveBody[t] {
							cand = append(cand, t)
						}
					}
					if len(cand) == 0 {
						continue
					}
					sortInts(cand)
					op = c14Op{Op: "body", Txs: []int{cand[r.Intn(len(cand))]}}
				case k < 70:
					op = c14Op{Op: "age", Sec: ages[r.Intn(len(ages))]}
					if op.Sec > 3 {
						expired = true
					}
				case k < 75:
					var cand []int
					for t := 0; t < 6; t++ {
						if _, asked := e.lastReq[t]; asked && !e.confirmed[t] {
							cand = append(cand, t)
						}
					}
					if len(cand) == 0 {
						continue
					}
					op = c14Op{Op: "confirm", Txs: []int{cand[r.Intn(len(cand))]}}
				default:
					op = c14Op{Op: "check", Conn: r.Intn(4)}
				}
				ops = append(ops, op)
				before := len(e.lastReq)
				v := e.apply(op)
				rep.Event("op:"+op.Op, 1)
				fp += fmt.Sprintf("%s%d,", op.Op[:2], len(e.lastReq)-before)
				if v != nil {
					rep.Finding(ci, "C14/"+v.rule, v.detail+" | ops: "+fmt.Sprint(ops), map[string]interface{}{"ops": fmt.Sprint(ops)})
					break
				}
			}
			nt := false
			for _, cs := range multi {
				if len(cs) > 1 && expired {
					nt = true
				}
			}
			rep.Case(fp, nt)
			if rep.WantSample() {
				rep.Sample(map[string]interface{}{"case": ci, "ops": fmt.Sprint(ops)})
			}
		})
	}
}

// bulk family: more txids than fit one getdata batch (100) are tracked by a connection when their
// window expires; the messages are kept by reference, as the node's outgoing queue does.
func c14Bulk(rep *verifkit.Report) {
	n := verifkit.N(24, 600)
	for ci := 0; ci < n; ci++ {
		if !verifkit.Mine(ci) {
			continue
		}
		ci := ci
		verifkit.RunCase(rep, ci, func() {
			r := verifkit.Rand("C14/bulk", ci)
			ntx := []int{99, 100, 101, 102, 150, 201, 203, 250, 305}[r.Intn(9)]
			e := newC14Env(3, ntx)
			all := r.Perm(ntx)
			ops := []c14Op{{Op: "inv", Conn: 0, Txs: all}, {Op: "inv", Conn: 1, Txs: r.Perm(ntx)},
				{Op: "inv", Conn: 2, Txs: r.Perm(ntx)[:1+r.Intn(ntx)]}, {Op: "age", Sec: 3.5}, {Op: "check", Conn: 1},
				{Op: "age", Sec: 1}, {Op: "check", Conn: 2}, {Op: "age", Sec: 2.5}, {Op: "check", Conn: 2}, {Op: "check", Conn: 0}}
			for _, op := range ops {
				rep.Event("bulk_op:"+op.Op, 1)
				if v := e.apply(op); v != nil {
					rep.Finding(ci, "C14/"+v.rule+"/bulk", fmt.Sprintf("%s | bulk scenario with %d txids: c0 asked, c1 and c2 told to wait, windows expire, checks", v.detail, ntx), map[string]interface{}{"ntx": ntx})
					break
				}
			}
			rep.Event("bulk_requests_judged", int64(len(e.lastReq)))
			rep.Case(fmt.Sprintf("bulk%d", ntx), true)
		})
	}
}

func sortInts(a []int) {
	for i := 1; i < len(a); i++ {
		for j := i; j > 0 && a[j] < a[j-1]; j-- {
			a[j], a[j-1] = a[j-1], a[j]
		}
	}
}

// ---- concurrent part -----------------------------------------------------------------------------------------

type c14In struct{ Tx int }
type c14Out struct{ Have, Request bool }

func TestVerif_C14Conc(t *testing.T) {
	rep := verifkit.NewReport("C14")
	defer rep.Write()
	model := porcupine.Model{
		Partition: func(h []porcupine.Operation) [][]porcupine.Operation {
			m := map[int][]porcupine.Operation{}
			for _, op := range h {
				m[op.Input.(c14In).Tx] = append(m[op.Input.(c14In).Tx], op)
			}
			var out [][]porcupine.Operation
			for _, v := range m {
				out = append(out, v)
			}
			return out
		},
		Init: func() interface{} { return false },
		Step: func(st, in, out interface{}) (bool, interface{}) {
			o := out.(c14Out)
			if o.Have {
				return false, st // no body is ever added in this workload
			}
			return o.Request == !st.(bool), true
		},
	}
	n := verifkit.N(400, 30000)
	for ci := 0; ci < n; ci++ {
		if !verifkit.Mine(ci) {
			continue
		}
		r := verifkit.Rand("C14/conc", ci)
		e := newC14Env(4, 8)
		var clock int64
		var mu sync.Mutex
		var hist []porcupine.Operation
		var wg sync.WaitGroup
		sets := make([][]int, 4)
		for c := range sets {
			sets[c] = r.Perm(8)[:3+r.Intn(5)]
		}
		var emitted [4][]int
		start := make(chan struct{})
		for c := 0; c < 4; c++ {
			wg.Add(1)
			go func(c int) {
				defer wg.Done()
				<-start
				conn := e.conns[c]
				for _, t := range sets[c] {
					inv := wire.NewMsgInv()
					h := e.txs[t].id
					inv.AddInvVect(wire.NewInvVect(wire.InvTypeTx, &h))
					call := atomic.AddInt64(&clock, 1)
					resp, _ := conn.handle(inv)
					ret := atomic.AddInt64(&clock, 1)
					req := len(e.requested(resp)) > 0
					if req {
						emitted[c] = append(emitted[c], t)
					}
					mu.Lock()
					hist = append(hist, porcupine.Operation{ClientId: c, Input: c14In{Tx: t}, Call: call, Output: c14Out{Request: req}, Return: ret})
					mu.Unlock()
				}
			}(c)
		}
		close(start)
		wg.Wait()
		overl := 0
		fp := ""
		for i, op := range hist {
			fp += fmt.Sprint(op.ClientId)
			if i > 0 && hist[i-1].Return > op.Call {
				overl++
			}
		}
		rep.Event("concurrent_histories", 1)
		rep.Event("concurrent_addrequest_calls", int64(len(hist)))
		rep.Event("concurrent_overlapping_pairs", int64(overl))
		count := map[int]int{}
		for c := range emitted {
			for _, t := range emitted[c] {
				count[t]++
			}
		}
		for t, k := range count {
			if k > 1 {
				rep.Finding(ci, "C14/two-peers-asked-in-one-epoch/concurrent-inv", fmt.Sprintf("tx%d requested from %d connections within one window", t, k), nil)
			}
		}
		res := porcupine.CheckOperationsTimeout(model, hist, 10*time.Second)
		if res == porcupine.Illegal {
			rep.Finding(ci, "C14/not-linearizable/concurrent-inv", "AddRequest history is not linearizable against 'first caller per txid is told to request'", nil)
		} else if res == porcupine.Unknown {
			rep.Inconc(ci, "porcupine timeout")
		}
		rep.Case("conc"+fp, overl > 0)
	}
}
