//go:build verif

package spynode

import (
	"fmt"
	"math/rand"
	"testing"

	"github.com/tokenized/pkg/wire"
	"github.com/tokenized/spynode/internal/verifkit"
)

// ---- C03: relevant transactions delivered completely and exactly once (DD) -----------------------------

var c03Sources = []string{"trusted-inv", "trusted-bare", "untrusted-inv", "untrusted-bare", "local", "trusted-inv-nobody", "untrusted-inv-nobody"}
var c03Kinds = []string{"out-push", "in-push", "hashed-out", "none", "none"}

// c03Scenario drives one generated history and returns the world.
func c03Scenario(r *rand.Rand, conflicts bool) (*txWorld, string, error) {
	return c03ScenarioOpt(r, conflicts, false)
}

// c03ScenarioOpt: c11 = restarts use the comparing restart and are more frequent.
func c03ScenarioOpt(r *rand.Rand, conflicts bool, c11 bool) (*txWorld, string, error) {
	initial := 3 + r.Intn(5)
	w, err := newTxWorld(r, verifkit.NewStore(r.Intn(2) == 0), initial, 1+r.Intn(initial))
	if err != nil {
		return nil, "", err
	}
	fp := ""
	// transactions: independent, chained, (optionally) conflicting
	ntx := 2 + r.Intn(6)
	free := append([]wire.OutPoint(nil), w.uni.Order...)
	take := func() wire.OutPoint {
		i := r.Intn(len(free))
		op := free[i]
		free = append(free[:i], free[i+1:]...)
		return op
	}
	var pool []*txInfo
	spent := map[wire.OutPoint]bool{}
	for i := 0; i < ntx && len(free) > 1; i++ {
		kind := c03Kinds[r.Intn(len(c03Kinds))]
		var ins []wire.OutPoint
		if p := pickUnspentParent(r, pool, spent); p != nil && r.Intn(3) == 0 {
			op := wire.OutPoint{Hash: p.id, Index: 0}
			spent[op] = true
			ins = append(ins, op) // child of an earlier tx
			fp += "c"
		} else if conflicts && len(pool) > 0 && r.Intn(3) == 0 {
			p := pool[r.Intn(len(pool))]
			ins = append(ins, p.spends[0]) // double spend
			fp += "x"
		} else {
			ins = append(ins, take())
		}
		if r.Intn(4) == 0 && len(free) > 1 {
			ins = append(ins, take())
		}
		pool = append(pool, w.makeTx(kind, ins))
	}
	unconf := map[*txInfo]bool{}
	confirmed := map[*txInfo]bool{}
	steps := 4 + r.Intn(10)
	for s := 0; s < steps; s++ {
		switch k := r.Intn(100); {
		case k < 50: // a tx arrives (again) from some source
			t := pool[r.Intn(len(pool))]
			src := c03Sources[r.Intn(len(c03Sources))]
			if len(src) > 7 && src[len(src)-6:] == "nobody" && r.Intn(2) == 0 {
				src = c03Sources[r.Intn(5)]
			}
			if confirmed[t] {
				fp += "R" // re-announced after confirmation
			}
			w.arrive(t, src, r.Intn(4) > 0)
			if !confirmed[t] && t.processedUnconf > 0 {
				unconf[t] = true
			}
			fp += src[:1] + src[len(src)-1:]
		case k < 75: // a block confirms some seen and some unseen transactions (parents before children)
			var in []*txInfo
			for _, t := range pool {
				if confirmed[t] {
					continue
				}
				if (unconf[t] && r.Intn(2) == 0) || r.Intn(5) == 0 {
					ok := true
					for _, sp := range t.spends { // parent must be confirmed or in this block already
						if p := w.byID[sp.Hash]; p != nil && !confirmed[p] {
							inBlock := false
							for _, q := range in {
								if q == p {
									inBlock = true
								}
							}
							if !inBlock {
								ok = false
							}
						}
					}
					// do not confirm two conflicting transactions
					for _, q := range append(in, keys(confirmed)...) {
						for _, a := range q.spends {
							for _, b := range t.spends {
								if a == b && q != t {
									ok = false
								}
							}
						}
					}
					if ok {
						in = append(in, t)
					}
				}
			}
			w.pumpTxs()
			if r.Intn(3) == 0 {
				// the bodies of one or two transactions (in this block or not) arrive from the
				// trusted peer while the block is being processed
				var cand []*txInfo
				for _, t := range pool {
					if !confirmed[t] {
						cand = append(cand, t)
					}
				}
				for k := 0; k < 1+r.Intn(2) && len(cand) > 0; k++ {
					t := cand[r.Intn(len(cand))]
					w.midBlock = append(w.midBlock, t)
					inThis := false
					for _, q := range in {
						if q == t {
							inThis = true
						}
					}
					if !inThis {
						unconf[t] = true
					}
				}
				w.midBlockAt = r.Intn(4)
				fp += "M"
			}
			w.mine(in, r.Intn(2) == 0)
			if len(w.midBlock) > 0 { // no block was processed (cannot happen with a mined block)
				for _, t := range w.midBlock {
					w.arrive(t, "trusted-bare", true)
				}
				w.midBlock = nil
			}
			for _, t := range in {
				confirmed[t] = true
				delete(unconf, t)
			}
			fp += fmt.Sprintf("B%d", len(in))
		case k < 80 && !conflicts:
			// reorganisation: the last one or two blocks are orphaned; the new branch confirms
			// some of their transactions again, the others are unconfirmed once more
			w.pumpTxs()
			d := 1 + r.Intn(2)
			if d > w.tip.Height-w.start {
				d = w.tip.Height - w.start
			}
			if d < 1 {
				fp += "p"
				break
			}
			chain := w.tip.Chain()
			var orphanedTxs []*txInfo
			for h := w.tip.Height - d + 1; h <= w.tip.Height; h++ {
				for _, tx := range chain[h].Txs[1:] {
					if t := w.byID[*tx.TxHash()]; t != nil {
						orphanedTxs = append(orphanedTxs, t)
					}
				}
			}
			newTxs := make([][]*txInfo, d+1)
			remined := map[*txInfo]bool{}
			for _, t := range orphanedTxs {
				// a child only together with (after) its parent
				ok := r.Intn(3) > 0
				for _, sp := range t.spends {
					if p := w.byID[sp.Hash]; p != nil && !remined[p] {
						for _, q := range orphanedTxs {
							if q == p {
								ok = false
							}
						}
					}
				}
				if ok {
					remined[t] = true
					newTxs[0] = append(newTxs[0], t)
				}
			}
			w.reorg(d, newTxs, r.Intn(2) == 0)
			for _, t := range orphanedTxs {
				if !remined[t] {
					delete(confirmed, t)
					unconf[t] = true
				}
			}
			fp += fmt.Sprintf("G%d.%d", d, len(newTxs[0]))
		case k < 85:
			w.pumpTxs()
			fp += "p"
		case c11 && k < 89:
			// one iteration of the delay checker with every safe delay elapsed
			w.pumpTxs()
			fp += fmt.Sprintf("K%d", w.checkerStep())
		case k < 93 || (c11 && k < 100 && r.Intn(2) == 0):
			w.pumpTxs()
			if c11 && r.Intn(2) == 0 {
				// the peer confirms some tracked transactions while the node is down: the node
				// processes that block while catching up after the restart
				var in []*txInfo
				for _, t := range pool {
					if unconf[t] && !confirmed[t] && r.Intn(2) == 0 {
						ok := true
						for _, sp := range t.spends {
							if p := w.byID[sp.Hash]; p != nil && !confirmed[p] {
								ok = false
							}
						}
						for _, q := range append(in, keys(confirmed)...) {
							if q != t && sharesOut(q, t) {
								ok = false
							}
						}
						if ok {
							in = append(in, t)
						}
					}
				}
				w.c11RestartWith(func() {
					w.mineOffline(in)
				})
				for _, t := range in {
					confirmed[t] = true
					delete(unconf, t)
				}
				fp += fmt.Sprintf("SO%d", len(in))
				if r.Intn(2) == 0 {
					fp += fmt.Sprintf("K%d", w.checkerStep())
				}
				continue
			}
			if c11 {
				w.c11Restart()
			} else if err := w.restart(); err != nil {
				w.find("C11", "C11/restart-failed", err.Error())
				return w, fp, nil
			}
			fp += "S"
			if c11 && r.Intn(2) == 0 {
				fp += fmt.Sprintf("K%d", w.checkerStep())
			}
			if c11 && r.Intn(2) == 0 {
				// a tracked transaction is announced again after the restart (the mempool of the
				// new process does not know it), then the delay checker runs
				var cand []*txInfo
				for _, t := range pool {
					if unconf[t] && !confirmed[t] {
						cand = append(cand, t)
					}
				}
				if len(cand) > 0 {
					t := cand[r.Intn(len(cand))]
					src := c03Sources[r.Intn(5)]
					w.arrive(t, src, true)
					fp += "A" + src[:1] + src[len(src)-1:] + fmt.Sprintf("K%d", w.checkerStep())
				}
			}
		default:
			w.pumpTxs()
			fp += "e"
			w.mine(nil, true)
		}
	}
	w.pumpTxs()
	return w, fp, nil
}

func pickUnspentParent(r *rand.Rand, pool []*txInfo, spent map[wire.OutPoint]bool) *txInfo {
	var cand []*txInfo
	for _, p := range pool {
		if !spent[wire.OutPoint{Hash: p.id, Index: 0}] {
			cand = append(cand, p)
		}
	}
	if len(cand) == 0 {
		return nil
	}
	return cand[r.Intn(len(cand))]
}

func sharesOut(a, b *txInfo) bool {
	for _, x := range a.spends {
		for _, y := range b.spends {
			if x == y {
				return true
			}
		}
	}
	return false
}

func keys(m map[*txInfo]bool) []*txInfo {
	var out []*txInfo
	for k := range m {
		out = append(out, k)
	}
	return out
}

func TestVerif_C03(t *testing.T) {
	rep := verifkit.NewReport("C03")
	rep.Rule = "DD: a node synced to a short chain, subscribed to 3 hashes and 3 hashed data items; 2-7 generated transactions (relevant through an output push, an input push, a hashed output push, or irrelevant; independent or chained parent->child) reach it through generated histories over {inv+tx or bare tx from the trusted peer, from two untrusted peers, local submission, several sources, processing delayed in the channel, confirmation in a block with seen and unseen transactions, re-announcement after confirmation, clean restart}; the recorded HandleTx callbacks of both handlers are judged against the generator's ground truth (relevance, spent outputs from the UTXO universe, at most 1+orphanings deliveries, at least one when seen in sync / in a processed block). Non-trivial = history has a block or a restart; distinct by the step-shape string"
	rep.Assumptions = []string{"the harness re-issues the one-line body of processUnconfirmedTxs and the block-processor loop body", "spent outputs of unknown parents come from a fake OutputFetcher serving the generator's UTXO universe"}
	defer rep.Write()
	n := verifkit.N(2500, 150000)
	for ci := 0; ci < n; ci++ {
		if !verifkit.Mine(ci) {
			continue
		}
		ci := ci
		verifkit.RunCase(rep, ci, func() {
			r := verifkit.Rand("C03", ci)
			w, fp, err := c03Scenario(r, ci%3 == 2)
			if err != nil {
				rep.Inconc(ci, err.Error())
				return
			}
			w.checkC03(2)
			for _, f := range w.finds {
				if f.prop != "C03" {
					rep.Event("other_property_findings:"+f.sig, 1)
					continue
				}
				rep.Finding(ci, f.sig, f.detail, w.witness())
			}
			rep.Event("histories", 1)
			rep.Event("transactions", int64(len(w.txs)))
			rep.Event("callbacks", int64(len(w.e.log.snapshot())))
			rep.Case(fp, len(fp) > 0 && (containsAny(fp, "BSR")))
			if rep.WantSample() {
				rep.Sample(w.witness())
			}
		})
	}
}

func containsAny(s, chars string) bool {
	for _, c := range s {
		for _, d := range chars {
			if c == d {
				return true
			}
		}
	}
	return false
}
