//go:build verif

package storage

import (
	"bytes"
	"encoding/hex"
	"fmt"
	"testing"

	"github.com/tokenized/spynode/internal/verifkit"
	"github.com/tokenized/spynode/pkg/client"
)

// C15 (stored record): SaveTxState -> FetchTxState round trip through the storage wrapper.
func TestVerif_C15Store(t *testing.T) {
	rep := verifkit.NewReport("C15")
	defer rep.Write()
	n := verifkit.N(1500, 100000)
	for ci := 0; ci < n; ci++ {
		if !verifkit.Mine(ci) {
			continue
		}
		r := verifkit.Rand("C15/store", ci)
		tx := client.VerifTx(r)
		tx.ID = 0 // the stored record is keyed by txid; the message id is part of the record too
		if r.Intn(2) == 0 {
			tx.ID = client.VerifU64(r, 0xffffffffffffffff)
		}
		store := verifkit.NewStore(false)
		var want bytes.Buffer
		tx.Serialize(&want)
		if err := SaveTxState(c09ctx, store, tx); err != nil {
			rep.Finding(ci, "C15/store/save-error", err.Error(), nil)
			continue
		}
		var got *client.Tx
		var err error
		if p := safely(func() { got, err = FetchTxState(c09ctx, store, *tx.Tx.TxHash()) }); p != nil {
			rep.Finding(ci, "C15/store/fetch-panic", fmt.Sprint(p), map[string]interface{}{"hex": hex.EncodeToString(want.Bytes())})
			continue
		}
		if err != nil {
			rep.Finding(ci, "C15/store/fetch-error", err.Error(), map[string]interface{}{"hex": hex.EncodeToString(want.Bytes())})
			continue
		}
		var back bytes.Buffer
		got.Serialize(&back)
		if !bytes.Equal(want.Bytes(), back.Bytes()) {
			rep.Finding(ci, "C15/store/record-differs", "stored tx record does not round-trip", map[string]interface{}{"hex": hex.EncodeToString(want.Bytes())})
		}
		// a truncated stored record must not load as some other record
		key := store.Keys()[0]
		full, _ := store.Get(key)
		for cut := 0; cut < len(full); cut += 1 + len(full)/120 {
			store.Put(key, full[:cut])
			var perr error
			if p := safely(func() { _, perr = FetchTxState(c09ctx, store, *tx.Tx.TxHash()) }); p != nil {
				rep.Finding(ci, "C15/store/prefix-panic", fmt.Sprint(p), nil)
				break
			}
			rep.Event("stored_prefixes_tried", 1)
			if perr == nil {
				rep.Finding(ci, "C15/store/prefix-decodes", fmt.Sprintf("stored record cut to %d/%d bytes loads without error", cut, len(full)), map[string]interface{}{"hex": hex.EncodeToString(full)})
				break
			}
		}
		rep.Event("stored_roundtrips", 1)
		rep.Case(fmt.Sprintf("store/%d/%v/%d", len(tx.Tx.TxIn), tx.State.MerkleProof != nil, len(full)%5), true)
	}
}
