#!/usr/bin/env python3
"""One-off source transformer: wraps the body of `for ci := ...` case loops (the part after the
`if !verifkit.Mine(ci) { continue }` gate) into verifkit.RunCase(rep, ci, func() { ... }) and turns
the `continue` statements that refer to the case loop into `return`.
usage: wrap_cases.py file.go [loop-start-line ...]   (no line numbers = every Mine(ci) loop)"""
import re, sys

def strip(line):
    # remove string/rune literals and comments (rough)
    out, i, n = "", 0, len(line)
    while i < n:
        c = line[i]
        if c == '"':
            i += 1
            while i < n and line[i] != '"':
                i += 2 if line[i] == '\\' else 1
            i += 1; out += '""'; continue
        if c == '`':
            j = line.find('`', i + 1)
            i = n if j < 0 else j + 1; out += '""'; continue
        if c == "'":
            j = line.find("'", i + 2)
            i = n if j < 0 else j + 1; out += "'x'"; continue
        if line.startswith("//", i):
            break
        out += c; i += 1
    return out

def transform(path, only):
    src = open(path).read().split("\n")
    out = []
    i = 0
    changed = 0
    while i < len(src):
        line = src[i]
        m = re.match(r"^(\t+)if !verifkit\.Mine\(ci\) \{$", line)
        if not m or (only and (i + 1) not in only) or i + 2 >= len(src) or src[i+1].strip() != "continue" or src[i+2].strip() != "}":
            out.append(line); i += 1; continue
        ind = m.group(1)
        out += [line, src[i+1], src[i+2]]
        i += 3
        # body runs until the closing brace of the for loop: a line equal to ind[:-1] + "}"
        close = ind[:-1] + "}"
        body = []
        while src[i] != close:
            body.append(src[i]); i += 1
        # already wrapped?
        if any("verifkit.RunCase(" in b for b in body[:3]):
            out += body; continue
        # walk the body: stack of block kinds
        stack = []
        new = []
        for b in body:
            s = strip(b)
            t = s.strip()
            fordepth = sum(1 for k in stack if k == "for")
            funcdepth = sum(1 for k in stack if k == "func")
            if re.match(r"^continue\b", t) and fordepth == 0 and funcdepth == 0:
                b = b.replace("continue", "return", 1)
            # closing braces first when the line starts with them
            for ch_i, ch in enumerate(s):
                if ch == '{':
                    head = s[:ch_i]
                    if re.search(r"(^|\s)for(\s|$)", head) and "func" not in head.split("for")[-1]:
                        stack.append("for")
                    elif re.search(r"func\s*\([^{]*$", head):
                        stack.append("func")
                    else:
                        stack.append("blk")
                elif ch == '}':
                    if stack:
                        stack.pop()
            new.append("\t" + b if b else b)
        out.append(ind + "ci := ci")
        out.append(ind + "verifkit.RunCase(rep, ci, func() {")
        out += new
        out.append(ind + "})")
        changed += 1
    open(path, "w").write("\n".join(out))
    return changed

if __name__ == "__main__":
    only = set(int(x) for x in sys.argv[2:])
    print(sys.argv[1], "loops wrapped:", transform(sys.argv[1], only))
