#!/bin/bash
# usage: [SEEDROOT=/tmp/seed2] confirm_seed.sh <prop> <A|B|C|D> <pkgdir for demo> <caught-by signature(s)>
# Confirms a seeded change in its scratch worktree (/tmp/seed/<prop>): the patch applies, the
# repository builds and its suite passes with it, the demo fails with it and passes without it.
# Then stores it under /verif/seeded/<prop>-<A|B>/.
export GOFLAGS=-mod=mod GOPROXY=off GOSUMDB=off GOTOOLCHAIN=local
prop=$1; v=$2; pkg=$3; caught=$4
wt=${SEEDROOT:-/tmp/seed}/$prop; sd=$wt/SEED/$v
demo=$(ls $sd/*_test.go.txt | head -1); dname=zz_seed_$(basename ${demo%.txt})
cd $wt || exit 2
git checkout -q -- . ; rm -f $pkg/zz_seed_*_test.go
cp $demo $pkg/$dname
clean=$(go test -vet=off -count=1 -run 'Seed|TestC[0-9]' ./$pkg/ 2>&1 | tail -1)
git apply $sd/patch.diff || { echo "PATCH DOES NOT APPLY"; exit 1; }
build=$(go build ./... 2>&1 | tail -1)
patched=$(go test -vet=off -count=1 -run 'Seed|TestC[0-9]' ./$pkg/ 2>&1 | tail -1)
rm -f $pkg/$dname
suite=$(go test -vet=off -count=1 ./... 2>&1 | grep -c "^ok")
suitefail=$(go test -vet=off -count=1 ./... 2>&1 | grep -c "^FAIL\|^---")
git checkout -q -- .
echo "$prop-$v: clean-demo=[$clean] patched-demo=[$patched] build=[$build] suite-ok-pkgs=$suite suite-fail-lines=$suitefail"
case "$clean" in ok*) ;; *) echo "DEMO DOES NOT PASS ON CLEAN TREE"; exit 1;; esac
case "$patched" in FAIL*) ;; *) echo "DEMO DOES NOT FAIL WITH PATCH"; exit 1;; esac
[ "$suitefail" = "0" ] || { echo "SUITE FAILS WITH PATCH"; exit 1; }
out=/verif/seeded/$prop-$v; mkdir -p $out
cp $sd/patch.diff $out/patch.diff; cp $demo $out/$(basename $demo); cp $sd/notes.md $out/notes.md
python3 - "$prop" "$v" "$pkg" "$caught" "$clean" "$patched" "$out" <<'PY'
import json,sys
prop,v,pkg,caught,clean,patched,out=sys.argv[1:]
notes=open(out+"/notes.md").read()
json.dump({"property":prop,"variant":v,"breaks":prop,"demo_package_dir":pkg,
 "needs_to_manifest":"see notes.md (written by the seeding sub-agent)",
 "confirmed":{"suite_with_patch":"passes","demo_clean":clean,"demo_patched":patched,
   "how":"tools/confirm_seed.sh: git apply in scratch worktree /tmp/seed/%s, go build ./..., go test ./..., demo with and without patch"%prop},
 "caught_by":caught.split(";") if caught else []},open(out+"/meta.json","w"),indent=1)
PY
echo "stored $out"
