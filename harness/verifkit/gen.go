//go:build verif

package verifkit

import (
	"sync"
	"bytes"
	"crypto/sha256"
	"encoding/binary"
	"fmt"
	"math/rand"

	"github.com/tokenized/pkg/bitcoin"
	"github.com/tokenized/pkg/wire"
)

// ---- independent hashing / merkle ----------------------------------------------------------------

func dsha(b []byte) bitcoin.Hash32 {
	h := sha256.Sum256(b)
	return bitcoin.Hash32(sha256.Sum256(h[:]))
}

// MerkleRoot is an independent Bitcoin merkle root (odd rows duplicate their last node).
func MerkleRoot(txids []bitcoin.Hash32) bitcoin.Hash32 {
	if len(txids) == 0 {
		return bitcoin.Hash32{}
	}
	row := append([]bitcoin.Hash32(nil), txids...)
	for len(row) > 1 {
		if len(row)%2 == 1 {
			row = append(row, row[len(row)-1])
		}
		next := make([]bitcoin.Hash32, 0, len(row)/2)
		for i := 0; i < len(row); i += 2 {
			next = append(next, dsha(append(append([]byte{}, row[i][:]...), row[i+1][:]...)))
		}
		row = next
	}
	return row[0]
}

// VerifyMerklePath recomputes the root from a leaf, its index, the sibling path and the list of
// 1-based layers at which the sibling is a duplicate of the running hash (spynode's format).
// Written for the harness; independent of client.MerkleProof.IsValid and wire.MerkleTree.
func VerifyMerklePath(leaf bitcoin.Hash32, index uint64, path []bitcoin.Hash32, dupLayers []uint64) bitcoin.Hash32 {
	cur := leaf
	dup := map[uint64]bool{}
	maxDup := uint64(0)
	for _, d := range dupLayers {
		dup[d] = true
		if d > maxDup {
			maxDup = d
		}
	}
	pi := 0
	for layer := uint64(1); ; layer++ {
		var sib bitcoin.Hash32
		if dup[layer] {
			sib = cur
		} else if pi < len(path) {
			sib = path[pi]
			pi++
		} else if layer > maxDup {
			break
		} else {
			break
		}
		if index%2 == 0 {
			cur = dsha(append(append([]byte{}, cur[:]...), sib[:]...))
		} else {
			cur = dsha(append(append([]byte{}, sib[:]...), cur[:]...))
		}
		index /= 2
	}
	return cur
}

// MerkleProofShape says what is wrong with the shape of a proof for leaf idx of an n-leaf tree: one
// node per level (a sibling hash, or a marker that the running hash is paired with itself), the
// markers exactly at the levels where the leaf's ancestor is the last node of an odd row.
func MerkleProofShape(n, idx, pathLen int, dupLayers []uint64) string {
	var want []uint64
	pos, width := idx, n
	for layer := uint64(1); width > 1; layer++ {
		if pos == width-1 && width%2 == 1 {
			want = append(want, layer)
		}
		pos /= 2
		width = (width + 1) / 2
	}
	depth := MerkleDepth(n)
	if pathLen+len(dupLayers) != depth {
		return fmt.Sprintf("%d nodes for a tree of depth %d", pathLen+len(dupLayers), depth)
	}
	if len(want) != len(dupLayers) {
		return fmt.Sprintf("duplicated layers should be %v", want)
	}
	for i := range want {
		if want[i] != dupLayers[i] {
			return fmt.Sprintf("duplicated layers should be %v", want)
		}
	}
	return ""
}

// MerkleDepth is the number of levels above the leaves for n leaves.
func MerkleDepth(n int) int {
	d := 0
	for w := n; w > 1; w = (w + 1) / 2 {
		d++
	}
	return d
}

// ---- block tree ------------------------------------------------------------------------------------

type Block struct {
	Header wire.BlockHeader
	Hash   bitcoin.Hash32
	Height int
	Parent *Block
	Txs    []*wire.MsgTx // first is the coinbase (empty for genesis)
	Branch int           // label of the branch this block was created on (informational)
}

type Tree struct {
	Genesis *Block
	ByHash  map[bitcoin.Hash32]*Block // single-goroutine engines read it directly; others use Get
	salt    uint32
	mu      sync.RWMutex // Extend vs Get (L1 engine: peers in goroutines, the test extends the tree)
}

// Get is the goroutine-safe lookup.
func (t *Tree) Get(h bitcoin.Hash32) *Block {
	t.mu.RLock()
	defer t.mu.RUnlock()
	return t.ByHash[h]
}

// MainNetGenesisHeader equals the header the block repository creates for an empty store.
func MainNetGenesisHeader() wire.BlockHeader {
	merkle, _ := bitcoin.NewHash32FromStr("4a5e1e4baab89f3a32518a88c31bc87f618f76673e2cc77ab2127b7afdeda33b")
	return wire.BlockHeader{Version: 1, MerkleRoot: *merkle, Timestamp: 1231006505, Bits: 0x1d00ffff,
		Nonce: 2083236893}
}

func NewTree() *Tree {
	h := MainNetGenesisHeader()
	g := &Block{Header: h, Hash: *h.BlockHash(), Height: 0}
	return &Tree{Genesis: g, ByHash: map[bitcoin.Hash32]*Block{g.Hash: g}}
}

// Coinbase builds a coinbase transaction that is unique per (height, salt).
func Coinbase(height int, salt uint32) *wire.MsgTx {
	tx := wire.NewMsgTx(1)
	var zero bitcoin.Hash32
	script := make([]byte, 9)
	script[0] = 8
	binary.BigEndian.PutUint32(script[1:], uint32(height))
	binary.BigEndian.PutUint32(script[5:], salt)
	tx.AddTxIn(wire.NewTxIn(wire.NewOutPoint(&zero, 0xffffffff), script))
	tx.AddTxOut(wire.NewTxOut(5000000000, []byte{0x51}))
	return tx
}

// Extend adds a block with a coinbase plus txs on top of parent.
func (t *Tree) Extend(parent *Block, txs []*wire.MsgTx) *Block {
	t.mu.Lock()
	defer t.mu.Unlock()
	t.salt++
	all := append([]*wire.MsgTx{Coinbase(parent.Height+1, t.salt)}, txs...)
	ids := make([]bitcoin.Hash32, len(all))
	for i, tx := range all {
		ids[i] = *tx.TxHash()
	}
	h := wire.BlockHeader{Version: 1, PrevBlock: parent.Hash, MerkleRoot: MerkleRoot(ids),
		Timestamp: 1600000000 + t.salt, Bits: 0x1d00ffff, Nonce: t.salt}
	b := &Block{Header: h, Hash: *h.BlockHash(), Height: parent.Height + 1, Parent: parent, Txs: all}
	t.ByHash[b.Hash] = b
	return b
}

// ExtendN adds n empty blocks.
func (t *Tree) ExtendN(parent *Block, n int) *Block {
	for i := 0; i < n; i++ {
		parent = t.Extend(parent, nil)
	}
	return parent
}

// Chain returns the blocks from genesis to b.
func (b *Block) Chain() []*Block {
	out := make([]*Block, b.Height+1)
	for c := b; c != nil; c = c.Parent {
		out[c.Height] = c
	}
	return out
}

// Ancestor returns the ancestor at height h.
func (b *Block) Ancestor(h int) *Block {
	c := b
	for c != nil && c.Height > h {
		c = c.Parent
	}
	return c
}

func (b *Block) IsAncestorOf(o *Block) bool {
	a := o.Ancestor(b.Height)
	return a == b
}

// ForkPoint returns the last common block of two tips.
func ForkPoint(a, b *Block) *Block {
	for a.Height > b.Height {
		a = a.Parent
	}
	for b.Height > a.Height {
		b = b.Parent
	}
	for a != b {
		a, b = a.Parent, b.Parent
	}
	return a
}

// Msg builds a fresh wire.MsgBlock (iteration state is per message).
func (b *Block) Msg() *wire.MsgBlock {
	h := b.Header
	m := wire.NewMsgBlock(&h)
	for _, tx := range b.Txs {
		m.AddTransaction(tx)
	}
	return m
}

// MsgWithTxs builds a block message with this header but another body.
func (b *Block) MsgWithTxs(txs []*wire.MsgTx) *wire.MsgBlock {
	h := b.Header
	m := wire.NewMsgBlock(&h)
	for _, tx := range txs {
		m.AddTransaction(tx)
	}
	return m
}

// ParseMsg re-encodes a block message as the streaming MsgParseBlock the node reads off the wire.
func ParseMsg(m *wire.MsgBlock) (*wire.MsgParseBlock, error) {
	var buf bytes.Buffer
	if err := m.BtcEncode(&buf, wire.ProtocolVersion); err != nil {
		return nil, err
	}
	p := &wire.MsgParseBlock{}
	if err := p.BtcDecode(&buf, wire.ProtocolVersion); err != nil {
		return nil, err
	}
	return p, nil
}

func (b *Block) TxIDs() []bitcoin.Hash32 {
	ids := make([]bitcoin.Hash32, len(b.Txs))
	for i, tx := range b.Txs {
		ids[i] = *tx.TxHash()
	}
	return ids
}

// ---- transactions ------------------------------------------------------------------------------------

// Universe is a small set of unspent outputs with known value and script (ground truth for the
// output fetcher) plus builders for transactions over it.
type Universe struct {
	Outs  map[wire.OutPoint]*wire.TxOut
	Order []wire.OutPoint
	seq   uint32
	mu    sync.RWMutex // Build (test goroutine) vs Lookup (the node's fetcher goroutine) in the L1/DDC engines
}

func NewUniverse(r *rand.Rand, n int) *Universe {
	u := &Universe{Outs: map[wire.OutPoint]*wire.TxOut{}}
	for i := 0; i < n; i++ {
		var h bitcoin.Hash32
		r.Read(h[:])
		op := wire.OutPoint{Hash: h, Index: uint32(r.Intn(3))}
		script := append([]byte{0x76, 0xa9, 20}, randBytes(r, 20)...)
		script = append(script, 0x88, 0xac)
		u.Outs[op] = wire.NewTxOut(uint64(1000+r.Intn(100000)), script)
		u.Order = append(u.Order, op)
	}
	return u
}

func randBytes(r *rand.Rand, n int) []byte {
	b := make([]byte, n)
	r.Read(b)
	return b
}

// P2PKH returns a standard locking script paying to a 20-byte hash.
func P2PKH(hash20 []byte) []byte {
	s := append([]byte{0x76, 0xa9, 20}, hash20...)
	return append(s, 0x88, 0xac)
}

// PushScript returns a script consisting of one direct/PUSHDATA push of data.
func PushScript(data []byte) []byte {
	n := len(data)
	switch {
	case n <= 75:
		return append([]byte{byte(n)}, data...)
	case n <= 255:
		return append([]byte{0x4c, byte(n)}, data...)
	case n <= 65535:
		return append([]byte{0x4d, byte(n), byte(n >> 8)}, data...)
	}
	return append([]byte{0x4e, byte(n), byte(n >> 8), byte(n >> 16), byte(n >> 24)}, data...)
}

// TxSpec describes a transaction to build.
type TxSpec struct {
	Inputs    []wire.OutPoint
	Unlocking [][]byte // per input (nil = a random 2-push signature script)
	Outputs   [][]byte // locking scripts
}

// Build makes the transaction and registers its outputs in the universe (so children can spend
// them and the fetcher knows them).
func (u *Universe) Build(r *rand.Rand, spec TxSpec) *wire.MsgTx {
	u.mu.Lock()
	defer u.mu.Unlock()
	u.seq++
	tx := wire.NewMsgTx(1)
	for i, in := range spec.Inputs {
		in := in
		var us []byte
		if i < len(spec.Unlocking) && spec.Unlocking[i] != nil {
			us = spec.Unlocking[i]
		} else {
			us = append(PushScript(randBytes(r, 71)), PushScript(randBytes(r, 33))...)
		}
		tx.AddTxIn(wire.NewTxIn(&in, us))
	}
	for _, ls := range spec.Outputs {
		tx.AddTxOut(wire.NewTxOut(uint64(500+u.seq), ls))
	}
	tx.LockTime = u.seq // uniqueness
	id := *tx.TxHash()
	for i, o := range tx.TxOut {
		u.Outs[wire.OutPoint{Hash: id, Index: uint32(i)}] = o
	}
	return tx
}

// Spent returns the ground-truth outputs spent by tx, per input (zero output when unknown).
func (u *Universe) Spent(tx *wire.MsgTx) []*wire.TxOut {
	u.mu.RLock()
	defer u.mu.RUnlock()
	out := make([]*wire.TxOut, len(tx.TxIn))
	for i, in := range tx.TxIn {
		if o, ok := u.Outs[in.PreviousOutPoint]; ok {
			out[i] = o
		} else {
			out[i] = wire.NewTxOut(0, nil)
		}
	}
	return out
}

// GetOutputs implements the node's OutputFetcher over the universe.
func (u *Universe) Lookup(ops []wire.OutPoint) ([]bitcoin.UTXO, error) {
	u.mu.RLock()
	defer u.mu.RUnlock()
	res := make([]bitcoin.UTXO, len(ops))
	for i, op := range ops {
		o, ok := u.Outs[op]
		if !ok {
			return nil, fmt.Errorf("unknown outpoint %s", op.String())
		}
		res[i] = bitcoin.UTXO{Hash: op.Hash, Index: op.Index, Value: o.Value, LockingScript: o.LockingScript}
	}
	return res, nil
}

func TxBytes(tx *wire.MsgTx) []byte {
	var buf bytes.Buffer
	tx.Serialize(&buf)
	return buf.Bytes()
}
