#!/bin/bash
# usage: try_seed.sh <patch.diff> <property> [more properties...]
# applies a seeded change to /repo, runs the quick checks, and always restores /repo.
patch=$1; shift
cd /repo || exit 2
if ! git diff --quiet; then echo "/repo has uncommitted changes"; exit 2; fi
git apply "$patch" || { echo "patch does not apply"; exit 2; }
trap 'git -C /repo checkout -- . ; git -C /repo clean -fdq internal pkg cmd 2>/dev/null' EXIT
for p in "$@"; do
  echo "=== $p with $(basename $(dirname $patch))"
  /verif/vcheck $p --no-evidence 2>&1 | grep -E "^VIOLATION|signature:|^C[0-9]+ tier|BUILD-FAILED|BROKEN|INCONCLUSIVE|KNOWN" | head -12
  echo "exit=${PIPESTATUS[0]}"
done
