//go:build verif

package verifkit

import (
	"os"
	"fmt"
	"regexp"
	"runtime"
	"strings"
	"sync"
	"time"
)

// ---- hang guard ------------------------------------------------------------------------------------
//
// The single-goroutine engines call node code directly; a change that makes that code block for
// good (a lock taken twice, a send on a channel nobody reads) would freeze the monitor and all a
// run could report is a watchdog time-out.  RunCase runs the case on its own goroutine and watches
// it: a case is reported as hung only on positive evidence - two goroutine dumps 1.5 s apart, at
// least 3.5 s after the start, show the case's goroutine blocked (mutex, channel, cond, select)
// with the same product-code function as its innermost non-runtime frame.  Anything else that takes
// long is left alone (and ends, if ever, with the driver's watchdog as inconclusive).

var (
	overrideMu    sync.Mutex
	overrideFrame string
)

func takeOverrideFrame() string {
	overrideMu.Lock()
	defer overrideMu.Unlock()
	f := overrideFrame
	overrideFrame = ""
	return f
}

var (
	hungMu    sync.Mutex
	hungCases int
)

var goroutineHeader = regexp.MustCompile(`^goroutine \d+ \[([^\]]+)\]:`)

var blockedStates = []string{"sync.Mutex.Lock", "sync.RWMutex.Lock", "sync.RWMutex.RLock", "semacquire",
	"chan send", "chan receive", "select", "sync.Cond.Wait", "sync.WaitGroup.Wait"}

// blockedAt returns "state @ function" when the goroutine whose stack contains marker is blocked
// and its innermost non-runtime frame is product code (module code outside the harness).
var lastHangStack string

func blockedAt(marker string) (string, string) {
	buf := make([]byte, 8<<20)
	n := runtime.Stack(buf, true)
	for _, g := range strings.Split(string(buf[:n]), "\n\n") {
		if !strings.Contains(g, marker) {
			continue
		}
		lines := strings.Split(g, "\n")
		m := goroutineHeader.FindStringSubmatch(lines[0])
		if m == nil {
			continue
		}
		state := m[1]
		if i := strings.Index(state, ","); i >= 0 {
			state = state[:i]
		}
		blocked := false
		for _, b := range blockedStates {
			if strings.HasPrefix(state, b) {
				blocked = true
			}
		}
		if !blocked {
			return "", ""
		}
		for i := 1; i+1 < len(lines); i += 2 {
			fn := strings.TrimSpace(lines[i])
			path := strings.TrimSpace(lines[i+1])
			if strings.HasPrefix(fn, "runtime.") || strings.HasPrefix(fn, "sync.") || strings.HasPrefix(fn, "internal/") || strings.HasPrefix(fn, "sync/atomic.") {
				continue
			}
			if j := strings.LastIndex(fn, "("); j > 0 && strings.HasSuffix(fn, ")") {
				fn = fn[:j]
			}
			if strings.Contains(path, "zz_verif_") || strings.Contains(path, "/verifkit/") || strings.Contains(path, "_test.go") {
				return "", "" // blocked in harness code: not evidence against the code under test
			}
			if !strings.Contains(fn, "github.com/tokenized/") {
				return "", ""
			}
			return state + " @ " + fn, g
		}
		return "", ""
	}
	return "", ""
}

//go:noinline
func guardedBody(f func()) { f() }

// Guarded runs f on its own goroutine and waits for it.  A panic in f is re-raised on the caller's
// goroutine (PanicFrame then still names the original frame).  Returns where f hangs, or "".
func Guarded(f func()) (hung string) {
	done := make(chan struct{})
	var pv interface{}
	var pf string
	go func() {
		defer close(done)
		defer func() {
			if p := recover(); p != nil {
				pv, pf = p, PanicFrame()
			}
		}()
		guardedBody(f)
	}()
	finish := func() {
		if pv != nil {
			overrideMu.Lock()
			overrideFrame = pf
			overrideMu.Unlock()
			panic(pv)
		}
	}
	select {
	case <-done:
		finish()
		return ""
	case <-time.After(2 * time.Second):
	}
	start := time.Now().Add(-2 * time.Second)
	prev, prevStack := "", ""
	prevCPU := procCPU(os.Getpid())
	for {
		cur, stack := blockedAt("verifkit.guardedBody")
		cpu := procCPU(os.Getpid())
		// blocked at the same place with the same stack, and the process did next to nothing in
		// between (a goroutine that is merely caught in a blocking call while working hard has
		// a changing stack and burns CPU)
		if cur != "" && cur == prev && stack == prevStack && cpu >= 0 && cpu-prevCPU < 0.15 && time.Since(start) >= 3500*time.Millisecond {
			lastHangStack = stack
			return cur
		}
		prev, prevStack, prevCPU = cur, stack, cpu
		select {
		case <-done:
			finish()
			return ""
		case <-time.After(1500 * time.Millisecond):
		}
	}
}

// RunCase runs one case of a monitor under the hang guard; a hang is a finding of the report's
// property (the goroutine is left behind, the next case starts from fresh state).
func RunCase(rep *Report, ci int, body func()) {
	hungMu.Lock()
	tooMany := hungCases >= 3
	hungMu.Unlock()
	if tooMany {
		// every hung case costs seconds and leaves a goroutine behind; three witnesses are enough
		rep.Event("cases_skipped_after_three_hung_cases", 1)
		return
	}
	if hung := Guarded(body); hung != "" {
		hungMu.Lock()
		hungCases++
		hungMu.Unlock()
		fn := hung
		if i := strings.Index(hung, " @ "); i >= 0 {
			fn = hung[i+3:]
		}
		rep.Finding(ci, rep.Property+"/hang/"+fn, fmt.Sprintf("the code under test never returned: the case's goroutine stays blocked (%s) in two goroutine dumps 1.5 s apart", hung), map[string]interface{}{"blocked": hung, "goroutine": lastHangStack})
		rep.Event("cases_hung", 1)
	}
}
