//go:build verif

package spynode

import (
	"bytes"
	"fmt"
	"testing"

	"github.com/tokenized/pkg/bitcoin"
	"github.com/tokenized/spynode/internal/storage"
	"github.com/tokenized/spynode/internal/verifkit"
	"github.com/tokenized/spynode/pkg/client"
)

// ---- C11: transaction tracking survives a clean restart (DD) ----------------------------------------------

// c11Restart stops and restarts the node of a world and compares the unconfirmed set.
func (w *txWorld) c11Restart() { w.c11RestartWith(nil) }

// c11RestartWith: whileDown runs between the stop and the start of the new node.
func (w *txWorld) c11RestartWith(whileDown func()) {
	before := w.e.node.txs.VerifUnconfirmed()
	w.e.node.blocks.Save(w.e.ctx)
	w.e.node.txs.Save(w.e.ctx)
	w.e.node.peers.Save(w.e.ctx)
	if whileDown != nil {
		// compare what the storage holds (a fresh repository loading it) before the peer's
		// chain moves on
		tr := storage.NewTxRepository(w.e.store)
		if err := tr.Load(w.e.ctx); err == nil {
			stored := tr.VerifUnconfirmed()
			if len(stored) != len(before) {
				w.find("C11", "C11/unconfirmed-lost", fmt.Sprintf("%d tracked before the stop, %d in the stored set", len(before), len(stored)))
			}
		}
		whileDown()
		if err := w.boot(w.e.store); err != nil {
			w.find("C11", "C11/restart-failed", err.Error())
		}
		return
	}
	if err := w.restart(); err != nil {
		w.find("C11", "C11/restart-failed", err.Error())
		return
	}
	after := w.e.node.txs.VerifUnconfirmed()
	for id, b := range before {
		a, ok := after[id]
		name := id.String()[:8]
		if ti := w.byID[id]; ti != nil {
			name = ti.name
		}
		if !ok {
			w.find("C11", "C11/unconfirmed-lost", fmt.Sprintf("%s was tracked as unconfirmed before the restart and is not afterwards (%d before, %d after)", name, len(before), len(after)))
			continue
		}
		if a.Unsafe != b.Unsafe || a.Safe != b.Safe || a.Trusted != b.Trusted {
			w.find("C11", "C11/flags-changed", fmt.Sprintf("%s flags before restart unsafe=%v safe=%v trusted=%v, after unsafe=%v safe=%v trusted=%v", name, b.Unsafe, b.Safe, b.Trusted, a.Unsafe, a.Safe, a.Trusted))
		}
		if a.Time.UnixNano()/1e6 != b.Time.UnixNano()/1e6 {
			w.find("C11", "C11/first-seen-time-changed", fmt.Sprintf("%s first seen %v before the restart, %v after (millisecond precision expected)", name, b.Time.UnixNano()/1e6, a.Time.UnixNano()/1e6))
		}
	}
	for id := range after {
		if _, ok := before[id]; !ok {
			w.find("C11", "C11/unconfirmed-appeared", fmt.Sprintf("%s is tracked after the restart but was not before", id.String()[:8]))
		}
	}
}

// c11StoredCopies: GetTx(txid) equals the transaction handed to the handlers, for every delivered tx.
func (w *txWorld) c11StoredCopies() {
	seen := map[bitcoin.Hash32]*client.Tx{}
	for _, ev := range w.e.log.snapshot() {
		if ev.Kind == "tx" && ev.Handler == 0 {
			seen[ev.TxID] = ev.Tx
		}
	}
	for id, dtx := range seen {
		got, err := w.e.node.GetTx(w.e.ctx, id)
		name := id.String()[:8]
		if ti := w.byID[id]; ti != nil {
			name = ti.name
		}
		if err != nil {
			w.find("C11", "C11/stored-copy-missing", fmt.Sprintf("GetTx(%s) fails for a delivered transaction: %v", name, err))
			continue
		}
		var a, b bytes.Buffer
		got.Serialize(&a)
		dtx.Tx.Serialize(&b)
		if !bytes.Equal(a.Bytes(), b.Bytes()) {
			w.find("C11", "C11/stored-copy-differs", fmt.Sprintf("GetTx(%s) differs from the transaction sent to handlers", name))
		}
	}
}

func TestVerif_C11(t *testing.T) {
	rep := verifkit.NewReport("C11")
	rep.Rule = "DD: the C03/C05 histories (deliveries from every source, conflicts, confirmations) with clean restarts (save what Run saves at shutdown, new Node on the same storage) and delay-checker iterations inserted at generated quiescent points; no transaction is reported safe twice; at every restart the unconfirmed set read through an accessor before and after must be identical (txids, unsafe/safe/trusted, first-seen time in ms); afterwards re-announcements must not deliver again, confirmations of transactions delivered before the restart must be state updates with a valid proof, GetTx must return the delivered transaction. Plus a component round trip of the unconfirmed file with all 8 flag combinations. Non-trivial = at least one unconfirmed relevant tx at a restart; distinct by step-shape string"
	rep.Assumptions = []string{"clean restart = the three saves Run performs at shutdown, then NewNode+load on the same store (the L1 engine does this through Run/Stop)", "the delay checker is re-issued as a step (one iteration of checkTxDelays with every delay elapsed); the real goroutine runs in the C07 engine"}
	defer rep.Write()
	n := verifkit.N(2000, 100000)
	for ci := 0; ci < n; ci++ {
		if !verifkit.Mine(ci) {
			continue
		}
		ci := ci
		verifkit.RunCase(rep, ci, func() {
			r := verifkit.Rand("C11", ci)
			// a C03-style history, restarts forced in
			w, fp, err := c03ScenarioOpt(r, r.Intn(3) == 0, true)
			if err != nil {
				rep.Inconc(ci, err.Error())
				return
			}
			w.checkC03(2)
			w.checkC04(2)
			w.c11StoredCopies()
			// confirmation of a tx delivered before: update, not new
			evs := w.e.log.snapshot()
			for _, ti := range w.txs {
				if !ti.relevant || ti.processedUnconf == 0 || len(ti.confirmedAt) == 0 || ti.orphaned > 0 {
					continue
				}
				firstTx := -1
				for _, ev := range evs {
					if ev.Handler == 0 && ev.TxID == ti.id && ev.Kind == "tx" {
						if firstTx >= 0 {
							w.find("C11", "C11/confirmation-delivered-as-new", fmt.Sprintf("%s was delivered unconfirmed and later delivered as new again", ti.name))
						}
						firstTx = ev.Seq
					}
				}
			}
			// reported safe (while unconfirmed) at most once, restarts included
			for _, ti := range w.txs {
				if ti.orphaned > 0 {
					continue
				}
				nSafe := 0
				for _, ev := range evs {
					if ev.Handler == 0 && ev.TxID == ti.id && ev.Kind == "update" && ev.State.Safe && ev.State.MerkleProof == nil {
						nSafe++
					}
				}
				if nSafe > 0 {
					rep.Event("safe_reports_checked", 1)
				}
				if nSafe > 1 {
					w.find("C11", "C11/reported-safe-again", fmt.Sprintf("%s was reported safe %d times (history %s)", ti.name, nSafe, fp))
				}
			}
			for _, f := range w.finds {
				if f.prop == "C11" || (f.prop == "C03" && containsAny(fp, "S")) || f.prop == "C04" {
					sig := f.sig
					if f.prop != "C11" {
						sig = "C11/after-restart/" + f.sig
					}
					rep.Finding(ci, sig, f.detail, w.witness())
				} else {
					rep.Event("other_property_findings:"+f.sig, 1)
				}
			}
			rep.Event("histories", 1)
			rep.Event("restarts", int64(countRune(fp, 'S')))
			rep.Case(fp, containsAny(fp, "S"))
			if rep.WantSample() {
				rep.Sample(w.witness())
			}
		})
	}
	// component: unconfirmed file round trip, all flag combinations
	if verifkit.Mine(0) {
		for mask := 0; mask < 8; mask++ {
			store := verifkit.NewStore(false)
			repo := storage.NewTxRepository(store)
			var id bitcoin.Hash32
			id[0] = byte(mask + 1)
			repo.Add(quietCtx, id, mask&1 != 0, mask&2 != 0, -1)
			if mask&4 != 0 {
				repo.MarkUnsafe(quietCtx, id)
			}
			before := repo.VerifUnconfirmed()
			repo.Save(quietCtx)
			r2 := storage.NewTxRepository(store)
			if err := r2.Load(quietCtx); err != nil {
				rep.Finding(0, "C11/component/load-failed", err.Error(), nil)
				continue
			}
			after := r2.VerifUnconfirmed()
			if len(after) != 1 || after[id].Safe != before[id].Safe || after[id].Unsafe != before[id].Unsafe || after[id].Trusted != before[id].Trusted || after[id].Time.UnixNano()/1e6 != before[id].Time.UnixNano()/1e6 {
				rep.Finding(0, "C11/component/roundtrip", fmt.Sprintf("flags mask %d: before %+v after %+v", mask, before[id], after[id]), nil)
			}
			rep.Event("component_roundtrips", 1)
		}
		// empty set: saving removes the file, loading gives an empty set
		store := verifkit.NewStore(true)
		repo := storage.NewTxRepository(store)
		repo.Save(quietCtx)
		r2 := storage.NewTxRepository(store)
		if err := r2.Load(quietCtx); err != nil || len(r2.VerifUnconfirmed()) != 0 {
			rep.Finding(0, "C11/component/empty-roundtrip", fmt.Sprintf("err=%v n=%d", err, len(r2.VerifUnconfirmed())), nil)
		}
	}
}

func countRune(s string, c rune) int {
	n := 0
	for _, x := range s {
		if x == c {
			n++
		}
	}
	return n
}
