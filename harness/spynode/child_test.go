//go:build verif

package spynode

import (
	"bytes"
	"fmt"
	"testing"

	"github.com/tokenized/pkg/bitcoin"
	"github.com/tokenized/pkg/wire"
	"github.com/tokenized/spynode/internal/platform/config"
	"github.com/tokenized/spynode/internal/verifkit"
)

// TestVerif_Child is the entry point of probe children (see verifkit/child.go).
func TestVerif_Child(t *testing.T) {
	switch verifkit.ChildKind() {
	case "":
		t.Skip("not a probe child")
	case "c08-contracts":
		// payload: a serialized transaction; answer: relevance with contract subscription on and
		// no push-data subscriptions
		node := NewNode(config.Config{Net: bitcoin.MainNet, IsTest: true}, verifkit.NewStore(false), nil, nil)
		node.SubscribeContracts(quietCtx)
		verifkit.ServeChild(4<<30, func(p []byte) string {
			tx := &wire.MsgTx{}
			if err := tx.Deserialize(bytes.NewReader(p)); err != nil {
				return "BADTX"
			}
			return fmt.Sprint(node.IsRelevant(quietCtx, tx))
		})
	}
}
