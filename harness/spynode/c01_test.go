//go:build verif

package spynode

import (
	"fmt"
	"math/rand"
	"testing"


	"github.com/tokenized/pkg/bitcoin"
	"github.com/tokenized/spynode/internal/verifkit"
)

// ---- C01 (DS engine): convergence to the trusted peer's best chain -----------------------------------

type c01Step struct {
	Op string `json:"op"` // extend reorg settle partial restart drop
	N  int    `json:"n,omitempty"`
	D  int    `json:"d,omitempty"`
}

func (s c01Step) String() string {
	switch s.Op {
	case "extend":
		return fmt.Sprintf("extend(%d)", s.N)
	case "reorg":
		return fmt.Sprintf("reorg(depth=%d,len=%d)", s.D, s.N)
	case "partial":
		return fmt.Sprintf("partial(%d)", s.N)
	case "revive":
		return fmt.Sprintf("revive(+%d)", s.N)
	case "race":
		return fmt.Sprintf("race(depth=%d,len=%d)", s.D, s.N)
	case "forkwindow":
		return fmt.Sprintf("forkwindow(+%d)", s.N)
	}
	return s.Op
}

type c01Scenario struct {
	Initial int       `json:"initial"`
	Start   int       `json:"start"` // height of the start block
	Batch   int       `json:"batch"`
	Pol     simPolicy `json:"-"`
	Parse   bool      `json:"parse_blocks"`
	SplitPct int      `json:"split_pct"` // chance that a block-processor step is split between pop and ProcessBlock
	Steps   []c01Step `json:"steps"`
	PolDesc string    `json:"policy"`
}

func c01Generate(r *rand.Rand, long bool) c01Scenario {
	sc := c01Scenario{}
	if long {
		// chains that need more than one headers message (2000) and more than one header file (1000)
		sc.Initial = []int{1000, 1990, 1998, 2000, 2003, 2040, 2150, 3999, 4005}[r.Intn(9)] + r.Intn(3)
		sc.Start = sc.Initial - r.Intn(30)
		if r.Intn(3) == 0 {
			sc.Start = 990 + r.Intn(20)
		}
	} else {
		sc.Initial = 3 + r.Intn(50)
		switch r.Intn(4) {
		case 0:
			sc.Start = 1
		case 1:
			sc.Start = sc.Initial + 1 + r.Intn(3) // not mined yet when the node starts
		default:
			sc.Start = 1 + r.Intn(sc.Initial)
		}
	}
	// A Bitcoin node answers getheaders with as many headers as it has, up to 2000: smaller
	// batches would not be "behaves like a Bitcoin node".
	sc.Batch = 2000
	sc.Pol = simPolicy{fairness: 1 + r.Intn(30), procPct: []int{0, 20, 50, 90}[r.Intn(4)], permute: r.Intn(2) == 0, dupPct: []int{0, 0, 10}[r.Intn(3)]}
	sc.Parse = r.Intn(2) == 0
	sc.SplitPct = []int{0, 0, 30, 70}[r.Intn(4)]
	sc.PolDesc = fmt.Sprintf("split=%d batch=%d fairness=%d procPct=%d permute=%v dupPct=%d", sc.SplitPct, sc.Batch, sc.Pol.fairness, sc.Pol.procPct, sc.Pol.permute, sc.Pol.dupPct)
	nsteps := 2 + r.Intn(7)
	if r.Intn(4) == 0 {
		// the peer mines one more block just when the node has seen the end of the header chain
		// and is about to finish its last blocks
		sc.Steps = append(sc.Steps, c01Step{Op: "syncrace"}, c01Step{Op: "settle"})
	} else if r.Intn(3) == 0 {
		sc.Steps = append(sc.Steps, c01Step{Op: "partial", N: 1 + r.Intn(40)})
	} else {
		sc.Steps = append(sc.Steps, c01Step{Op: "settle"})
	}
	for i := 0; i < nsteps; i++ {
		switch k := r.Intn(100); {
		case k < 8:
			// a new tip is requested but its body has not arrived when the peer replaces it
			sc.Steps = append(sc.Steps, c01Step{Op: "settle"}, c01Step{Op: "race", D: 1 + r.Intn(2), N: 1 + r.Intn(3)}, c01Step{Op: "settle"})
		case k < 12:
			// tip race: new blocks are announced, and before their bodies have all been
			// processed the peer switches to a competing branch
			sc.Steps = append(sc.Steps, c01Step{Op: "settle"}, c01Step{Op: "extend", N: 1 + r.Intn(3)},
				c01Step{Op: "partial", N: 1 + r.Intn(6)}, c01Step{Op: "reorg", D: 1 + r.Intn(4), N: 1 + r.Intn(3)})
		case k < 16:
			// more blocks announced at once than the request window holds, and before they are
			// all downloaded the peer reorganises from a block the node has requested
			sc.Steps = append(sc.Steps, c01Step{Op: "settle"}, c01Step{Op: "extend", N: 11 + r.Intn(12)},
				c01Step{Op: "partial", N: 1 + r.Intn(8)}, c01Step{Op: "forkwindow", N: 1 + r.Intn(3), D: r.Intn(2)}, c01Step{Op: "settle"})
		case k < 20:
			// back to an abandoned branch that has grown longer
			sc.Steps = append(sc.Steps, c01Step{Op: "revive", N: 1 + r.Intn(3)})
		case k < 30:
			sc.Steps = append(sc.Steps, c01Step{Op: "extend", N: 1 + r.Intn(12)})
		case k < 60:
			sc.Steps = append(sc.Steps, c01Step{Op: "reorg", D: 1 + r.Intn(15), N: 1 + r.Intn(18)})
		case k < 70:
			sc.Steps = append(sc.Steps, c01Step{Op: "restart"})
			if r.Intn(2) == 0 {
				sc.Steps = append(sc.Steps, c01Step{Op: "extend", N: 1 + r.Intn(4)}, c01Step{Op: "syncrace"})
			}
		case k < 80:
			sc.Steps = append(sc.Steps, c01Step{Op: "drop"})
			if r.Intn(2) == 0 {
				sc.Steps = append(sc.Steps, c01Step{Op: "extend", N: 1 + r.Intn(4)}, c01Step{Op: "syncrace"})
			}
		case k < 88:
			sc.Steps = append(sc.Steps, c01Step{Op: "partial", N: 1 + r.Intn(30)})
		default:
			sc.Steps = append(sc.Steps, c01Step{Op: "settle"})
		}
		if r.Intn(3) > 0 {
			sc.Steps = append(sc.Steps, c01Step{Op: "settle"})
		}
	}
	sc.Steps = append(sc.Steps, c01Step{Op: "settle"})
	return sc
}

// c01Run executes a scenario and returns the simulation (with its findings).
func c01Run(r *rand.Rand, sc c01Scenario, probeEvery bool) (*dsSim, error) {
	return c01RunHook(r, sc, probeEvery, nil)
}

// c01RunHook: setup is called whenever a (new) node has been created for the scenario.
func c01RunHook(r *rand.Rand, sc c01Scenario, probeEvery bool, setup func(*dsSim)) (*dsSim, error) {
	tree := verifkit.NewTree()
	tip := tree.ExtendN(tree.Genesis, sc.Initial)
	// the start block may not be mined yet: pre-build the future of the chain
	future := tip
	for future.Height < sc.Start {
		future = tree.Extend(future, nil)
	}
	startHash := future.Ancestor(sc.Start).Hash
	store := verifkit.NewStore(r.Intn(2) == 0)
	e, err := newDD(ddOpt{store: store, startHash: startHash})
	if err != nil {
		return nil, err
	}
	peer := newSimPeer(tree, tip)
	peer.batch = sc.Batch
	peer.parseBlocks = sc.Parse
	pol := sc.Pol
	pol.probeEvery = probeEvery
	s := newDSSim(e, peer, r, pol)
	s.splitPct = sc.SplitPct
	if setup != nil {
		setup(s)
	}
	s.connect()
	pendingFuture := future
	var abandoned []*verifkit.Block
	for _, st := range sc.Steps {
		if s.crashed {
			break
		}
		s.tracef("== %s", st)
		switch st.Op {
		case "extend":
			for i := 0; i < st.N; i++ {
				if pendingFuture.Height > peer.tip.Height && peer.tip.IsAncestorOf(pendingFuture) {
					peer.tip = pendingFuture.Ancestor(peer.tip.Height + 1)
				} else {
					peer.tip = tree.Extend(peer.tip, nil)
				}
			}
		case "reorg":
			d := st.D
			if d > peer.tip.Height {
				d = peer.tip.Height
			}
			base := peer.tip.Ancestor(peer.tip.Height - d)
			nt := base
			for i := 0; i < d+st.N-1+1; i++ { // new branch at least as long as the old one
				nt = tree.Extend(nt, nil)
			}
			abandoned = append(abandoned, peer.tip)
			peer.tip = nt
			s.chainChanged()
		case "race":
			// extend by one block, stop as soon as the node has asked for it, then reorganise
			nb := tree.Extend(peer.tip, nil)
			peer.tip = nb
			s.pumpUntil(400, func() bool { return peer.gotGetData[nb.Hash] > 0 })
			d := st.D
			if d > peer.tip.Height {
				d = peer.tip.Height
			}
			base := peer.tip.Ancestor(peer.tip.Height - d)
			nt := base
			for i := 0; i < d+st.N; i++ {
				nt = tree.Extend(nt, nil)
			}
			abandoned = append(abandoned, peer.tip)
			peer.tip = nt
			s.chainChanged()
			// the peer is slow to serve the requested block: its announcement of the new
			// branch overtakes the block reply
			if a := peer.announce(); len(a) > 0 {
				s.overtakeBlocks(a)
			}
		case "syncrace":
			// run until the node has been told that there are no more headers but has not
			// finished its blocks; then the peer's chain grows by one
			hit := false
			s.pumpUntil(2000, func() bool {
				hit = s.e.node.state.IsPendingSync() && !s.e.node.state.IsReady()
				return hit
			})
			if !hit {
				break
			}
			s.syncRaces++
			if r.Intn(2) == 0 {
				peer.tip = tree.Extend(peer.tip, nil)
				break
			}
			// variant: the block processor finishes first; the peer's reply to the node's last
			// header poll then carries one more block, which is fetched and taken into
			// processing before the incoming side runs its periodic check again
			s.pumpUntil(2000, func() bool { return s.e.node.state.IsReady() })
			if !s.e.node.state.IsReady() || s.e.node.state.NotifiedSync() || s.crashed {
				break
			}
			nb := tree.Extend(peer.tip, nil)
			peer.tip = nb
			s.handle(headersMsg(nb))
			for i := 0; i < 4 && len(s.inbox) > 0 && s.popped == nil; i++ {
				s.deliver()
				s.guard("block processor pop", func() { s.popped = s.e.node.state.NextBlock() })
			}
			if s.popped != nil {
				s.syncRaceWindows++
				s.tracef("processor popped a block (not yet processed); the incoming side runs its check")
				s.guard("check()", func() { s.e.node.check(s.e.ctx) })
				s.feed()
				s.finishPopped()
			}
		case "forkwindow":
			// fork at a block the node has requested and not yet processed
			var cands []*verifkit.Block
			q := s.e.node.state.VerifQueue()
			for _, rq := range q.Requested {
				if b := tree.ByHash[rq.Hash]; b != nil && b != peer.tip && b.IsAncestorOf(peer.tip) {
					cands = append(cands, b)
				}
			}
			// ... or is still waiting to request (behind the window)
			for _, h := range q.ToRequest {
				if b := tree.ByHash[h]; b != nil && b != peer.tip && b.IsAncestorOf(peer.tip) {
					cands = append(cands, b)
					if st.D == 1 {
						cands = []*verifkit.Block{b} // this step insists on a fork behind the window
						break
					}
				}
			}
			base := peer.tip.Parent
			if len(cands) > 0 {
				base = cands[r.Intn(len(cands))]
				s.forkInWindow++
			}
			if base == nil {
				break
			}
			nt := base
			for i := 0; i < peer.tip.Height-base.Height+st.N; i++ {
				nt = tree.Extend(nt, nil)
			}
			abandoned = append(abandoned, peer.tip)
			peer.tip = nt
			s.chainChanged()
			if len(cands) > 0 {
				s.forkExpect = append(s.forkExpect, nt.Ancestor(base.Height+1))
				if a := peer.announce(); len(a) > 0 {
					s.overtakeBlocks(a)
				}
			}
		case "revive":
			if len(abandoned) == 0 {
				break
			}
			old := abandoned[r.Intn(len(abandoned))]
			nt := old
			for nt.Height < peer.tip.Height+st.N {
				nt = tree.Extend(nt, nil)
			}
			abandoned = append(abandoned, peer.tip)
			peer.tip = nt
			s.chainChanged()
		case "settle":
			s.settle(lastChange(sc.Steps, st))
		case "partial":
			s.pump(st.N)
		case "restart":
			// clean stop: what Run saves at shutdown, then a new node on the same storage
			s.finishPopped()
			s.e.node.blocks.Save(s.e.ctx)
			s.e.node.txs.Save(s.e.ctx)
			s.e.node.peers.Save(s.e.ctx)
			if _, held := s.e.node.blocks.Height(&startHash); !held && s.e.node.state.StartHeight() != -1 {
				s.startOrphanedAtRestart = true
			}
			e2, err := newDD(ddOpt{store: store, startHash: startHash})
			if err != nil {
				s.find("C01", "C01/restart-load-failed", err.Error())
				return s, nil
			}
			e2.log = s.e.log
			for _, h := range e2.node.handlers {
				h.(*recorder).log = s.e.log
			}
			s.e = e2
			s.hookLog()
			if setup != nil {
				setup(s)
			}
			s.connect()
		case "drop":
			s.reconnect()
		case "shutdown":
			// what Run saves when it stops
			s.finishPopped()
			s.e.node.blocks.Save(s.e.ctx)
			s.e.node.txs.Save(s.e.ctx)
			s.e.node.peers.Save(s.e.ctx)
		}
	}
	s.checkCallbacks(2)
	return s, nil
}

func lastChange(steps []c01Step, cur c01Step) string {
	return "chain-changes"
}

func c01Fingerprint(sc c01Scenario) string {
	fp := fmt.Sprintf("%v/%v/", sc.Initial >= 1000, sc.Start > sc.Initial)
	for _, st := range sc.Steps {
		fp += st.Op[:2]
		if st.Op == "reorg" {
			fp += fmt.Sprintf("%d", st.D/4)
		}
	}
	return fp + sc.PolDesc
}

func c01NonTrivial(sc c01Scenario) bool {
	for _, st := range sc.Steps {
		if st.Op == "reorg" || st.Op == "restart" || st.Op == "drop" || st.Op == "revive" || st.Op == "race" || st.Op == "forkwindow" || st.Op == "syncrace" {
			return true
		}
	}
	return false
}

func runDSProperty(t *testing.T, prop string, rep *verifkit.Report, nShort, nLong int, probeEvery bool) {
	total := nShort + nLong
	for ci := 0; ci < total; ci++ {
		if !verifkit.Mine(ci) {
			continue
		}
		ci := ci
		verifkit.RunCase(rep, ci, func() {
			r := verifkit.Rand("DS", ci)
			long := ci >= nShort
			sc := c01Generate(r, long)
			if long && (ci-nShort)%4 == 0 {
				// file-boundary family: the chain ends just above a multiple of 1000, a
				// reorganisation forks below the boundary (the revert crosses header files), then the
				// peer returns to the abandoned branch, grown longer
				sc.Initial = []int{1001, 1002, 1003, 2001, 2002}[r.Intn(5)]
				sc.Start = sc.Initial - r.Intn(10)
				d := sc.Initial%1000 + 1 + r.Intn(3)
				pre := []c01Step{{Op: "settle"}, {Op: "reorg", D: d, N: 1 + r.Intn(3)}, {Op: "settle"}, {Op: "revive", N: 1 + r.Intn(3)}, {Op: "settle"}}
				sc.Steps = append(pre, sc.Steps...)
				rep.Event("file_boundary_revive_scenarios", 1)
			}
			s, err := c01Run(r, sc, probeEvery)
			if err != nil {
				rep.Inconc(ci, "scenario setup: "+err.Error())
				return
			}
			rep.Event("scenarios", 1)
			rep.Event("scheduling_steps", int64(s.steps))
			rep.Event("insync_callbacks_checked", int64(s.inSyncChecked))
			rep.Event("getheaders_received_by_peer", int64(s.peer.getHeaders))
			rep.Event("block_getdata_received_by_peer", int64(len(s.peer.getDataSeq)))
			rep.Event("block_requests_judged_on_the_wire", int64(s.wireRequests))
			rep.Event("block_rerequests_after_abandoned_branch", int64(s.rerequests))
		rep.Event("forks_at_a_requested_unprocessed_block", int64(s.forkInWindow))
		rep.Event("blocks_mined_between_end_of_headers_and_in_sync", int64(s.syncRaces))
		rep.Event("checks_run_while_a_late_block_is_in_processing_before_the_insync_notification", int64(s.syncRaceWindows))
			if s.maxRequested >= 10 {
				rep.Event("scenarios_reaching_full_window", 1)
			}
			for _, st := range sc.Steps {
				rep.Event("step:"+st.Op, 1)
			}
			for _, f := range s.finds {
				if f.prop != prop {
					rep.Event("other_property_findings:"+f.sig, 1)
					continue
				}
				w := s.witness()
				w["scenario"] = sc
				rep.Finding(ci, f.sig, f.detail+" | scenario: initial="+fmt.Sprint(sc.Initial)+" start="+fmt.Sprint(sc.Start)+" "+sc.PolDesc+" steps="+fmt.Sprint(sc.Steps), w)
			}
			rep.Case(c01Fingerprint(sc), c01NonTrivial(sc))
			if rep.WantSample() {
				rep.Sample(map[string]interface{}{"scenario": sc, "steps": fmt.Sprint(sc.Steps), "final_height": s.peer.tip.Height})
			}
		})
	}
}

func TestVerif_C01(t *testing.T) {
	rep := verifkit.NewReport("C01")
	rep.Rule = "DS engine: real handlers/state/repositories/ProcessBlock/check() in one goroutine against a scripted well-behaved peer; scenario = (initial chain 3-52 or 1000-2150 blocks, start block early/middle/not yet mined, header batch 1..2000, block replies permuted/duplicated, block processor stepping probability, MsgBlock vs MsgParseBlock) + steps over {extend k, reorg depth d<=15, partial pump, clean restart, connection drop, settle}; at every settle the full height->hash map must equal the peer's chain after at most three aged time-out rounds, and every HandleInSync is judged online. Non-trivial = scenario has a reorg, restart or drop; distinct by (long?, start unmined?, step kinds with reorg depth class, policy)"
	rep.Assumptions = []string{"the scripted peer (getheaders by first known locator hash on its best chain, up to batch headers; header announcements after sendheaders) is the model of 'behaves like a Bitcoin node'", "time-outs are fired by ageing the stored request times (overlay accessor) and re-issuing Run's reconnect steps", "the harness re-issues the bodies of monitorIncoming / processBlocks; the L1 runs cross-check this"}
	defer rep.Write()
	runDSProperty(t, "C01", rep, verifkit.N(400, 20000), verifkit.N(48, 1500), false)
}

var _ = bitcoin.Hash32{}
