//go:build verif

package storage

import (
	"context"
	"fmt"
	"testing"

	"github.com/tokenized/pkg/bitcoin"
	"github.com/tokenized/pkg/wire"
	"github.com/tokenized/spynode/internal/platform/config"
	"github.com/tokenized/spynode/internal/verifkit"
)

// ---- C09: block repository vs list model ----------------------------------------------------------

type c09Op struct {
	Op string `json:"op"` // add revert save reload
	N  int    `json:"n,omitempty"`
}

func (o c09Op) String() string {
	if o.Op == "add" || o.Op == "revert" {
		return fmt.Sprintf("%s(%d)", o.Op, o.N)
	}
	return o.Op
}

type c09Env struct {
	store   *verifkit.Store
	repo    *BlockRepository
	model   []wire.BlockHeader
	removed []bitcoin.Hash32 // hashes removed by the last successful revert
	salt    uint32
	cfg     config.Config
	// storage state class of the newest file at the time of the last revert (for signatures)
	newestSaved string
}

var c09ctx = context.Background()

func c09New(removeMissingIsError bool) (*c09Env, error) {
	e := &c09Env{store: verifkit.NewStore(removeMissingIsError)}
	e.cfg = config.Config{Net: bitcoin.MainNet}
	e.repo = NewBlockRepository(e.cfg, e.store)
	if err := e.repo.Load(c09ctx); err != nil {
		return nil, err
	}
	h, err := e.repo.Header(c09ctx, 0)
	if err != nil {
		return nil, err
	}
	e.model = []wire.BlockHeader{*h}
	return e, nil
}

func (e *c09Env) next() wire.BlockHeader {
	e.salt++
	tip := e.model[len(e.model)-1]
	return wire.BlockHeader{Version: 1, PrevBlock: *tip.BlockHash(), Timestamp: 1600000000 + e.salt,
		Nonce: e.salt, Bits: 0x1d00ffff}
}

type c09Viol struct{ rule, detail string }

func safely(f func()) (panicked interface{}) {
	defer func() {
		if r := recover(); r != nil {
			panicked = r
		}
	}()
	f()
	return nil
}

// probeAnswers collects every query answer as strings so that "unchanged" can be tested too.
func (e *c09Env) probeHeights() []int {
	tip := len(e.model) - 1
	hs := []int{-2, -1, 0, 1, tip - 1, tip, tip + 1, tip + 1000}
	for k := 1; k <= 3; k++ {
		for d := -2; d <= 2; d++ {
			hs = append(hs, k*1000+d)
		}
	}
	return hs
}

func (e *c09Env) answers() (map[string]string, *c09Viol) {
	out := map[string]string{}
	var viol *c09Viol
	repo := e.repo
	rec := func(k string, f func() string) {
		var s string
		if p := safely(func() { s = f() }); p != nil {
			s = fmt.Sprintf("PANIC %v", p)
			if viol == nil {
				viol = &c09Viol{"panic/" + k[:indexOf(k, '(')], fmt.Sprintf("%s panicked: %v", k, p)}
			}
		}
		out[k] = s
	}
	rec("LastHeight()", func() string { return fmt.Sprint(repo.LastHeight()) })
	rec("LastHash()", func() string { return repo.LastHash().String() })
	hashes := []bitcoin.Hash32{}
	for _, h := range e.probeHeights() {
		h := h
		rec(fmt.Sprintf("Hash(%d)", h), func() string {
			r, err := repo.Hash(c09ctx, h)
			if err != nil {
				return "ERR"
			}
			if r == nil {
				return "NIL"
			}
			return r.String()
		})
		rec(fmt.Sprintf("Header(%d)", h), func() string {
			r, err := repo.Header(c09ctx, h)
			if err != nil {
				return "ERR"
			}
			if r == nil {
				return "NIL"
			}
			return r.BlockHash().String()
		})
		rec(fmt.Sprintf("Time(%d)", h), func() string {
			r, err := repo.Time(c09ctx, h)
			if err != nil {
				return "ERR"
			}
			return fmt.Sprint(r)
		})
		if h >= 0 && h < len(e.model) {
			hashes = append(hashes, *e.model[h].BlockHash())
		}
	}
	for i, hs := range append(hashes, e.removed...) {
		hs := hs
		tag := "live"
		if i >= len(hashes) {
			tag = "removed"
		}
		rec(fmt.Sprintf("Height(%s:%s)", tag, hs.String()[:12]), func() string {
			r, ok := repo.Height(&hs)
			return fmt.Sprint(r, ok, repo.Contains(&hs))
		})
	}
	return out, viol
}

func indexOf(s string, c byte) int {
	for i := 0; i < len(s); i++ {
		if s[i] == c {
			return i
		}
	}
	return len(s)
}

// check compares every answer with the list model.
func (e *c09Env) check() *c09Viol {
	ans, viol := e.answers()
	if viol != nil {
		return viol
	}
	tip := len(e.model) - 1
	tipHash := e.model[tip].BlockHash().String()
	if ans["LastHeight()"] != fmt.Sprint(tip) {
		return &c09Viol{"last-height", fmt.Sprintf("LastHeight=%s, list tip=%d", ans["LastHeight()"], tip)}
	}
	if ans["LastHash()"] != tipHash {
		return &c09Viol{"last-hash", fmt.Sprintf("LastHash=%s, list tip hash=%s (height %d)", ans["LastHash()"], tipHash, tip)}
	}
	for _, h := range e.probeHeights() {
		class := "in-range"
		if h > tip {
			class = "beyond-tip"
		} else if h == -1 {
			class = "minus-one"
		} else if h < 0 {
			class = "negative"
		}
		for _, q := range []string{"Hash", "Header", "Time"} {
			got := ans[fmt.Sprintf("%s(%d)", q, h)]
			switch class {
			case "in-range":
				want := e.model[h].BlockHash().String()
				if q == "Time" {
					want = fmt.Sprint(e.model[h].Timestamp)
				}
				if got != want {
					return &c09Viol{"query-" + q + "/in-range", fmt.Sprintf("%s(%d)=%s, list says %s (tip %d)", q, h, got, want, tip)}
				}
			case "beyond-tip", "negative":
				// error or empty result; never data of some other block
				if got != "ERR" && got != "NIL" && got != "0" {
					return &c09Viol{"query-" + q + "/" + class, fmt.Sprintf("%s(%d)=%s with tip %d", q, h, got, tip)}
				}
			case "minus-one":
				// Header(-1) is documented as the tip; for the others error/empty or the tip
				want := tipHash
				if q == "Time" {
					want = fmt.Sprint(e.model[tip].Timestamp)
				}
				if q == "Header" {
					if got != want {
						return &c09Viol{"query-Header/minus-one", fmt.Sprintf("Header(-1)=%s, tip is %s", got, want)}
					}
				} else if got != "ERR" && got != "NIL" && got != "0" && got != want {
					return &c09Viol{"query-" + q + "/minus-one", fmt.Sprintf("%s(-1)=%s with tip %d", q, got, tip)}
				}
			}
		}
		if h >= 0 && h <= tip {
			hs := e.model[h].BlockHash()
			got := ans[fmt.Sprintf("Height(live:%s)", hs.String()[:12])]
			if got != fmt.Sprint(h, true, true) {
				return &c09Viol{"hash-to-height", fmt.Sprintf("Height(hash of %d)=%s (tip %d)", h, got, tip)}
			}
		}
	}
	live := map[bitcoin.Hash32]bool{}
	for i := range e.model {
		live[*e.model[i].BlockHash()] = true
	}
	for _, hs := range e.removed {
		if live[hs] {
			continue
		}
		got := ans[fmt.Sprintf("Height(removed:%s)", hs.String()[:12])]
		if got != fmt.Sprint(0, false, false) {
			return &c09Viol{"reverted-hash-still-known", fmt.Sprintf("hash removed by revert still answers %s", got)}
		}
	}
	return nil
}

func (e *c09Env) newestFileClass() string {
	// is the newest file on storage equal to / behind / missing w.r.t. the in-memory newest file?
	tip := len(e.model) - 1
	key := fmt.Sprintf("spynode/blocks/%08x", tip/1000)
	b, ok := e.store.Get(key)
	inFile := tip%1000 + 1
	if tip < 1000 {
		inFile = tip + 1
	}
	switch {
	case !ok:
		return "newest-file-unsaved"
	case len(b)/80 == inFile:
		return "newest-file-saved"
	default:
		return "newest-file-stale"
	}
}

func (e *c09Env) apply(op c09Op) *c09Viol {
	switch op.Op {
	case "add":
		for i := 0; i < op.N; i++ {
			h := e.next()
			var err error
			if p := safely(func() { err = e.repo.Add(c09ctx, &h) }); p != nil {
				return &c09Viol{"panic/Add", fmt.Sprint(p)}
			}
			if err != nil {
				return &c09Viol{"add-failed", err.Error()}
			}
			e.model = append(e.model, h)
		}
	case "save":
		if err := e.repo.Save(c09ctx); err != nil {
			return &c09Viol{"save-failed", err.Error()}
		}
	case "reload":
		if err := e.repo.Save(c09ctx); err != nil {
			return &c09Viol{"save-failed", err.Error()}
		}
		nr := NewBlockRepository(e.cfg, e.store)
		var err error
		if p := safely(func() { err = nr.Load(c09ctx) }); p != nil {
			return &c09Viol{"panic/Load", fmt.Sprint(p)}
		}
		if err != nil {
			return &c09Viol{"load-after-save-failed", err.Error()}
		}
		e.repo = nr
	case "load-again":
		// Load on the repository object that is in use (Node.load runs on the node's one
		// repository for Run, AddPeer and Scan alike); saved first, so nothing may change
		if err := e.repo.Save(c09ctx); err != nil {
			return &c09Viol{"save-failed", err.Error()}
		}
		fallthrough
	case "load-again-nothing-stored":
		// the same before anything was added or saved: the store is empty, the list is [genesis]
		var err error
		if p := safely(func() { err = e.repo.Load(c09ctx) }); p != nil {
			return &c09Viol{"panic/Load", fmt.Sprint(p)}
		}
		if err != nil {
			return &c09Viol{"load-again-failed", err.Error()}
		}
	case "revert":
		before, v := e.answers()
		if v != nil {
			return v
		}
		class := e.newestFileClass()
		tip := len(e.model) - 1
		cross := "same-file"
		if op.N/1000 != tip/1000 {
			cross = "across-files"
		}
		shape := class + "/" + cross
		var err error
		if p := safely(func() { err = e.repo.Revert(c09ctx, op.N) }); p != nil {
			return &c09Viol{"panic/Revert/" + shape, fmt.Sprint(p)}
		}
		if op.N > tip {
			if err == nil {
				return &c09Viol{"revert-above-tip-accepted", fmt.Sprintf("Revert(%d) with tip %d returned nil", op.N, tip)}
			}
		}
		if err != nil {
			after, v := e.answers()
			if v != nil {
				return v
			}
			for k, b := range before {
				if after[k] != b {
					return &c09Viol{"failed-revert-changed-store/" + shape, fmt.Sprintf("Revert(%d) at tip %d failed (%v) but %s changed from %s to %s", op.N, tip, err, k, b, after[k])}
				}
			}
			if op.N <= tip {
				// No fault is injected here: both delete-missing behaviours are ordinary back
				// ends, and on the abstract list revert(t) for t <= tip always succeeds. A
				// refused legal revert leaves the repository out of step with the list.
				return &c09Viol{"legal-revert-refused/" + shape, fmt.Sprintf("Revert(%d) at tip %d was refused on a fault-free back end: %v", op.N, tip, err)}
			}
			return nil
		}
		e.removed = nil
		for _, h := range e.model[op.N+1:] {
			e.removed = append(e.removed, *h.BlockHash())
		}
		e.model = e.model[:op.N+1]
		if v := e.check(); v != nil {
			v.rule += "/after-revert/" + shape
			return v
		}
		return nil
	}
	return e.check()
}

func TestVerif_C09(t *testing.T) {
	rep := verifkit.NewReport("C09")
	rep.Rule = "cases = (storage delete-missing behaviour, op list over {add k, revert t, save, save+reload into a new repository, save+Load on the repository in use, Load on the repository in use before anything is stored}); heights and revert targets concentrated at 0, 1000k-1, 1000k, 1000k+1, tip; after every op all queries (LastHeight, LastHash, Hash/Header/Time at 23 heights incl. -2,-1, beyond tip; Height/Contains for live and reverted hashes) are compared with a Go slice. Non-trivial = contains a revert; distinct by sequence of (op, file-boundary class, saved-state class)"
	rep.Assumptions = []string{"verifkit.Store (copy-on-read/write in-memory storage) stands for the storage back end; both delete-missing behaviours are run", "headers need not carry proof of work"}
	defer rep.Write()

	n := verifkit.N(320, 8000)
	for ci := 0; ci < n; ci++ {
		if !verifkit.Mine(ci) {
			continue
		}
		ci := ci
		verifkit.RunCase(rep, ci, func() {
			r := verifkit.Rand("C09", ci)
			e, err := c09New(ci%2 == 0)
			if err != nil {
				rep.Finding(ci, "C09/initial-load-failed", err.Error(), nil)
				return
			}
			var ops []c09Op
			fp := ""
			nontrivial := false
			// build to a height near a boundary
			bases := []int{0, 3, 995, 998, 999, 1000, 1001, 1004, 1998, 1999, 2000, 2001, 2005, 2999, 3001}
			base := bases[r.Intn(len(bases))]
			if base > 0 {
				ops = append(ops, c09Op{Op: "add", N: base})
			}
			nops := 8 + r.Intn(25)
			var viol *c09Viol
			step := func(op c09Op) bool {
				tipBefore := len(e.model) - 1
				class := ""
				if op.Op == "revert" {
					class = e.newestFileClass()
					if op.N/1000 != tipBefore/1000 {
						class += "X"
					}
					nontrivial = true
				}
				fp += op.Op[:2] + class + ","
				rep.Event("op:"+op.Op, 1)
				viol = e.apply(op)
				if viol != nil {
					rep.Finding(ci, "C09/"+viol.rule, fmt.Sprintf("%s | removeMissingIsError=%v ops=%v", viol.detail, e.store.RemoveMissingIsError, ops),
						map[string]interface{}{"removeMissingIsError": e.store.RemoveMissingIsError, "ops": ops})
					return false
				}
				return true
			}
			ok := true
			if r.Intn(4) == 0 {
				// a node whose AddPeer / Scan is used before Run loads its repository several times
				for k := 1 + r.Intn(3); ok && k > 0; k-- {
					op := c09Op{Op: "load-again-nothing-stored"}
					ops = append([]c09Op{op}, ops...)
					ok = step(op)
				}
			}
			if base > 0 && ok {
				ok = step(ops[len(ops)-1])
			}
			for i := 0; ok && i < nops; i++ {
				tip := len(e.model) - 1
				var op c09Op
				switch k := r.Intn(100); {
				case k < 35:
					adds := []int{1, 1, 2, 3, 5, 998, 1000, 1001}
					a := adds[r.Intn(len(adds))]
					if tip+a > 3300 {
						a = 1
					}
					op = c09Op{Op: "add", N: a}
				case k < 70:
					// revert target: around boundaries below tip, tip, tip-1, 0, sometimes above tip
					cands := []int{tip, tip - 1, tip - 2, 0, 1, tip + 1}
					for kk := 1; kk <= 3; kk++ {
						for d := -2; d <= 2; d++ {
							cands = append(cands, kk*1000+d)
						}
					}
					var ok2 []int
					for _, c := range cands {
						if c >= 0 && c <= tip+1 {
							ok2 = append(ok2, c)
						}
					}
					op = c09Op{Op: "revert", N: ok2[r.Intn(len(ok2))]}
				case k < 82:
					op = c09Op{Op: "save"}
				case k < 90:
					op = c09Op{Op: "load-again"}
				default:
					op = c09Op{Op: "reload"}
				}
				ops = append(ops, op)
				ok = step(op)
			}
			rep.Event("probes", int64(len(ops)))
			rep.Case(fp, nontrivial)
			if rep.WantSample() {
				rep.Sample(map[string]interface{}{"case": ci, "removeMissingIsError": e.store.RemoveMissingIsError, "ops": fmt.Sprint(ops)})
			}
		})
	}
}
