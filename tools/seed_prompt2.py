#!/usr/bin/env python3
"""Round 2: prompt for a fresh sub-agent asked for two more property-breaking changes (C and D),
different from the ones that already exist (summarised in one line each; nothing of /verif is shown)."""
import json, sys, re
pid = sys.argv[1]
root = sys.argv[2] if len(sys.argv) > 2 else "/tmp/seed2"
L1, L2 = (sys.argv[3], sys.argv[4]) if len(sys.argv) > 4 else ("C", "D")
wt = root + "/" + pid
p = [json.loads(l) for l in open("/verif/properties.jsonl") if json.loads(l)["id"] == pid][0]
taken = []
for l in open("/verif/DESIGN.md"):
    m = re.match(r"\| (C\d\d-[A-D]) \| ([^|]*) \|", l)
    if m and m.group(1).startswith(pid):
        taken.append(m.group(2).strip().replace("`", ""))
taken_txt = "\n".join("  - " + t for t in taken) or "  -"
print(f"""You are given a scratch git worktree of the Go repository tokenized/spynode at {wt} (a Bitcoin SV "spy node": syncs headers/blocks from a trusted peer, tracks a mempool for double-spend detection, serves a client wire protocol). Work ONLY inside {wt}. Do not read or touch /repo, /verif, /tmp/seed or /tmp/seed2 (other people's work lives there and your result must be independent of it).

Every shell call needs: export GOFLAGS=-mod=mod GOPROXY=off GOSUMDB=off GOTOOLCHAIN=local   (the sandbox has no network; all modules are in the module cache). The existing test suite is: cd {wt} && go build ./... && go test -vet=off -count=1 ./...   (about 15 s, all tests pass on the unchanged tree). Calls of verifhook.At(...) in the source are no-ops in a normal build; ignore them.

Here is a semantic property the code is supposed to satisfy:

  id: {p['id']}  --  {p['title']}
  statement: {p['statement']}
  quantified over: {p['quantifier']['text']}
  code it is anchored in: {', '.join(p['anchors']['files'])}
  mechanisms: {'; '.join(m['name'] + ' (' + m['where'] + ')' for m in p['anchors']['mechanism'])}

Your task: produce TWO independent, realistic changes (call them {L1} and {L2}) to the non-test source of tokenized/spynode, each of which BREAKS this property while the repository still compiles and the existing test suite still passes unchanged. They should look like plausible regressions or refactoring slips a maintainer could make (an off-by-one, a dropped or narrowed lock, a swapped order, a missing check, a wrong variable, a removed dedup gate, a stale cache, an early return, an error that is swallowed ...), not sabotage. Prefer changes that need something specific to manifest - a particular interleaving of goroutines, a fault or crash at a particular point, a multi-step sequence of operations, an unusual input, a boundary value, or two cooperating sites that each look fine alone - rather than changes that any ordinary use would expose at once. {L1} and {L2} should break the property in different ways and at different places, and should differ from these changes, which other people already made (do not repeat them or close variants of them; prefer clauses, mechanisms, files, code paths and trigger conditions they do not touch):
{taken_txt}
Read the whole statement and the quantifier: there are several clauses and many ways to reach each; look for paths the changes above leave alone (other callers, other message kinds, error paths, boundary values, restart / reconnect / reorg variants, the interplay of two goroutines).

For each change deliver, under {wt}/SEED/{L1} and {wt}/SEED/{L2}:
  - patch.diff : `git diff` of the change against the worktree's HEAD (only non-test source files; do not include the demo);
  - a demonstration: ONE Go test file named <something>_test.go.txt (say in notes.md which package directory it must be copied into, as a path relative to the repository root) whose test function names start with TestSeed, which FAILS with the change applied and PASSES without it, and which exercises the real code (explain how to run it). If the break needs a rare interleaving, the demo may force it (sleeps, many iterations), but it must pass reliably on the unchanged tree;
  - notes.md : which clause of the property statement is violated, what is needed for it to manifest, and the exact commands you ran.
Check all of this yourself: (1) with the patch applied `go build ./...` and the existing suite pass; (2) the demonstration fails with the patch and passes on the unchanged tree. Leave the worktree's tracked files UNCHANGED at the end (git checkout -- . ; the SEED directory is untracked and stays). Reply with a short summary of {L1} and {L2} (files touched, one line each on how they break the property, the demo's package directory, and whether all checks passed).""")
