//go:build verif

package client

import (
	"context"
	"fmt"
	"math/rand"
	"strings"
	"sync"
	"testing"
	"time"

	"github.com/pkg/errors"
	"github.com/tokenized/pkg/bitcoin"
	"github.com/tokenized/pkg/merkle_proof"
	"github.com/tokenized/pkg/wire"
	"github.com/tokenized/spynode/internal/verifhook"
	"github.com/tokenized/spynode/internal/verifkit"
)

// ---- C18: server authentication and handshake gating -----------------------------------------------------

var c18Forgeries = []string{"", "root-key", "other-hash-key", "other-signer", "sig-other-hash", "counts-altered", "replay-previous"}

func c18DataBurst(vc *vconn) {
	vc.send(c17Payload(1))
	hd := vHeader(5)
	vc.send(&Headers{StartHeight: 5, Headers: []*wire.BlockHeader{&hd}})
	vc.send(&InSync{})
	vc.send(c17Payload(2))
}

func c18Forgery(rep *verifkit.Report, ci int, r *rand.Rand) {
	forge := c18Forgeries[r.Intn(len(c18Forgeries))]
	connType := ConnectionTypeFull
	if r.Intn(2) == 0 {
		connType = ConnectionTypeControl
	}
	var mu sync.Mutex
	var prevHash *bitcoin.Hash32
	var forgedOn = -1
	burstDone := make(chan struct{}, 4)
	var regBad []int
	e, err := newCEnv(cOpt{connType: connType, requestTimeout: 300 * time.Millisecond, messageTimeout: time.Second,
		handshakeTO: time.Second, retryDelay: 20 * time.Millisecond, autoReady: true},
		func(vc *vconn) {
			mu.Lock()
			if !vc.regOK {
				regBad = append(regBad, vc.id)
			}
			ph := prevHash
			mu.Unlock()
			if forge == "replay-previous" && ph == nil {
				// first connection: a correct handshake whose accept is replayed later
				h := vc.reg.Hash
				mu.Lock()
				prevHash = &h
				mu.Unlock()
				vc.sendAccept("", nil)
				time.Sleep(60 * time.Millisecond)
				vc.c.Close()
				return
			}
			mu.Lock()
			forgedOn = vc.id
			mu.Unlock()
			// an application call is already waiting for the handshake when the accept arrives
			time.Sleep(time.Duration(30+r.Intn(50)) * time.Millisecond)
			vc.sendAccept(forge, ph)
			time.Sleep(time.Duration(10+r.Intn(40)) * time.Millisecond)
			c18DataBurst(vc)
			time.Sleep(250 * time.Millisecond)
			burstDone <- struct{}{}
			for range vc.in {
			}
		})
	if err != nil {
		rep.Inconc(ci, "env: "+err.Error())
		return
	}
	// requests issued before the accept: they wait for the handshake, which a forged accept never
	// completes
	var callWG sync.WaitGroup
	ncalls := r.Intn(3)
	for k := 0; k < ncalls; k++ {
		callWG.Add(1)
		go func(k int) {
			defer callWG.Done()
			e.rc.GetTx(vQuiet, *vTx(uint32(880000 + ci*10 + k)).TxHash())
		}(k)
	}
	defer callWG.Wait()
	select {
	case <-burstDone:
	case <-time.After(10 * time.Second):
		rep.Inconc(ci, "forgery scenario did not reach the data burst")
		e.stop(3 * time.Second)
		return
	}
	accepted := e.rc.IsAccepted(vQuiet)
	evs := e.log.snapshot()
	var runErr error
	runEnded := false
	select {
	case runErr = <-e.done:
		runEnded = true
		e.done <- runErr
	default:
	}
	// data events that belong to the forged connection: for the replay scenario the first
	// connection legitimately delivers nothing (it sends no data)
	data := 0
	for _, ev := range evs {
		if ev.Kind == "tx" || ev.Kind == "update" || ev.Kind == "headers" || ev.Kind == "insync" {
			data++
		}
	}
	w := map[string]interface{}{"forgery": forge, "connection_type": connType.String(), "accepted": accepted, "run_ended": runEnded, "run_error": fmtErr(runErr), "handler_events": fmt.Sprint(evs)}
	shape := forge + "/" + connType.String()
	rep.Event("forgery:"+forge, 1)
	if forge == "" {
		if !accepted {
			rep.Finding(ci, "C18/control/correct-accept-refused/"+connType.String(), "a correct accept was not accepted", w)
		} else if data < 4*len(e.recs) && connType == ConnectionTypeFull {
			// full connection with auto Ready: the burst (ids 1,2 + headers + insync) is deliverable
			rep.Event("control_data_partial", 1)
		}
	} else {
		if accepted {
			rep.Finding(ci, "C18/forged-accept-accepted/"+shape, "IsAccepted() is true after a forged accept", w)
		}
		if data > 0 {
			rep.Finding(ci, "C18/forged-accept-data-delivered/"+shape, fmt.Sprintf("%d data notifications reached handlers after a forged accept", data), w)
		}
		// nothing but handshake messages was written to the connection whose accept was forged
		mu.Lock()
		fo := forgedOn
		mu.Unlock()
		for _, vc := range e.srv.connections() {
			if vc.id != fo {
				continue
			}
			for _, a := range vc.snapshot() {
				switch a.Type {
				case MessageTypeRegister, MessageTypeSubscribePushData, MessageTypeUnsubscribePushData, MessageTypeSubscribeContracts, MessageTypeUnsubscribeContracts,
					MessageTypeSubscribeHeaders, MessageTypeUnsubscribeHeaders, MessageTypeSubscribeTx, MessageTypeUnsubscribeTx, MessageTypeSubscribeOutputs, MessageTypeUnsubscribeOutputs, MessageTypeReady, MessageTypePing:
				default:
					rep.Finding(ci, "C18/forged-accept-request-written/"+shape, fmt.Sprintf("%s was written to a connection whose accept was forged (%s)", MessageTypeNames[a.Type], forge), w)
				}
			}
		}
		if !runEnded {
			rep.Finding(ci, "C18/forged-accept-connection-not-failed/"+shape, "the client kept running after a forged accept", w)
		} else if runErr == nil || !(strings.Contains(runErr.Error(), ErrWrongKey.Error()) || strings.Contains(runErr.Error(), ErrBadSignature.Error())) {
			rep.Finding(ci, "C18/forged-accept-wrong-error/"+shape, "Run ended with "+fmtErr(runErr), w)
		}
	}
	mu.Lock()
	if len(regBad) > 0 {
		rep.Finding(ci, "C18/register-signature-invalid", fmt.Sprintf("register on connections %v does not verify under the configured client key", regBad), w)
	}
	_ = forgedOn
	mu.Unlock()
	e.stop(3 * time.Second)
	rep.Case("forgery/"+shape, true)
	if rep.WantSample() {
		rep.Sample(w)
	}
}

// ---- gating -----------------------------------------------------------------------------------------------------

type c18Plan struct {
	Kind     string `json:"kind"` // normal close-before-accept silent
	AcceptMS int    `json:"accept_ms"`
	LifeMS   int    `json:"life_ms"` // after the handshake point; 0 = stays
}

type c18CallRec struct {
	Kind  string
	Seed  uint32
	Start time.Duration
	End   time.Duration
	Err   error
}

type c18ConnInfo struct {
	plan      c18Plan
	regAt     time.Duration
	hpAt      time.Duration // server-side handshake point (accept written / Ready arrived); 0 = never
	hash      bitcoin.Hash32
	acceptedWithoutAccept bool // IsAccepted() was true on a connection that never got an accept
}

func c18Gating(rep *verifkit.Report, ci int, r *rand.Rand) {
	connType := ConnectionTypeFull
	if r.Intn(2) == 0 {
		connType = ConnectionTypeControl
	}
	nplans := 1 + r.Intn(4)
	var plans []c18Plan
	for i := 0; i < nplans; i++ {
		p := c18Plan{Kind: "normal", AcceptMS: []int{0, 0, 10, 40, 90}[r.Intn(5)], LifeMS: 30 + r.Intn(150)}
		switch k := r.Intn(10); {
		case k < 2 && i < nplans-1:
			p = c18Plan{Kind: "close-before-accept", AcceptMS: r.Intn(60)}
		case k < 3 && i < nplans-1:
			p = c18Plan{Kind: "silent"}
		case k < 5 && i < nplans-1:
			p = c18Plan{Kind: "garbage-before-accept", AcceptMS: 20 + r.Intn(60)}
		case k < 7 && i < nplans-2:
			// accepted, and dropped before the client has digested the accept; the next
			// connection is one that never gets an accept
			p = c18Plan{Kind: "normal", AcceptMS: 0, LifeMS: -1}
		}
		if i > 0 && plans[i-1].LifeMS == -1 {
			p = c18Plan{Kind: "silent"}
		}
		if i == nplans-1 {
			p.Kind = "normal"
			p.LifeMS = 0
		}
		plans = append(plans, p)
	}
	var mu sync.Mutex
	infos := map[int]*c18ConnInfo{}
	var srvStart time.Time
	var envRef *cEnv
	e, err := newCEnv(cOpt{connType: connType, requestTimeout: 250 * time.Millisecond, messageTimeout: 250 * time.Millisecond,
		handshakeTO: 150 * time.Millisecond, retryDelay: 15 * time.Millisecond, autoReady: true},
		func(vc *vconn) {
			p := plans[len(plans)-1]
			if vc.id < len(plans) {
				p = plans[vc.id]
			}
			info := &c18ConnInfo{plan: p, regAt: time.Since(vc.srv.start), hash: vc.reg.Hash}
			mu.Lock()
			infos[vc.id] = info
			srvStart = vc.srv.start
			mu.Unlock()
			switch p.Kind {
			case "close-before-accept":
				time.Sleep(time.Duration(p.AcceptMS) * time.Millisecond)
				vc.c.Close()
				return
			case "silent":
				// this connection gets no accept: the client must not regard it as accepted
				go func() {
					time.Sleep(30 * time.Millisecond)
					for envRef == nil {
						time.Sleep(time.Millisecond)
					}
					if envRef.rc.IsAccepted(vQuiet) {
						mu.Lock()
						info.acceptedWithoutAccept = true
						mu.Unlock()
					}
				}()
				for range vc.in { // never accept; the client's handshake time-out ends it
				}
				return
			case "garbage-before-accept":
				// an incompatible server: a message type the client does not know, no accept;
				// the server keeps reading
				time.Sleep(time.Duration(p.AcceptMS) * time.Millisecond)
				vc.wmu.Lock()
				vc.c.Write([]byte{0xfd, 0x0f, 0x27})
				vc.wmu.Unlock()
				for range vc.in {
				}
				return
			}
			time.Sleep(time.Duration(p.AcceptMS) * time.Millisecond)
			// Earliest moment the client can legitimately regard the handshake as complete:
			// it has to receive the accept first (and, for a full connection, send Ready).
			mu.Lock()
			info.hpAt = time.Since(vc.srv.start)
			mu.Unlock()
			vc.sendAccept("", nil)
			if p.LifeMS == -1 {
				time.Sleep(time.Duration(r.Intn(3)) * time.Millisecond)
				vc.c.Close()
				return
			}
			var closeAt <-chan time.Time
			for {
				select {
				case m, ok := <-vc.in:
					if !ok {
						return
					}
					switch pl := m.Payload.(type) {
					case *Ready:
						if p.LifeMS > 0 && closeAt == nil {
							closeAt = time.After(time.Duration(p.LifeMS) * time.Millisecond)
						}
					case *GetTx:
						for s := uint32(1); s < 400; s++ {
							if *vTx(uint32(ci)*1000 + s).TxHash() == pl.TxID {
								vc.send(&BaseTx{Tx: vTx(uint32(ci)*1000 + s)})
								break
							}
						}
					}
					if connType != ConnectionTypeFull && p.LifeMS > 0 && closeAt == nil {
						closeAt = time.After(time.Duration(p.LifeMS) * time.Millisecond)
					}
				case <-closeAt:
					vc.c.Close()
					return
				}
				if connType != ConnectionTypeFull && p.LifeMS > 0 && closeAt == nil {
					closeAt = time.After(time.Duration(p.LifeMS) * time.Millisecond)
				}
			}
		})
	if err != nil {
		rep.Inconc(ci, "env: "+err.Error())
		return
	}
	envRef = e
	// application goroutines
	var cmu sync.Mutex
	var calls []*c18CallRec
	var wg sync.WaitGroup
	horizon := 600 * time.Millisecond
	for g := 0; g < 3; g++ {
		wg.Add(1)
		gr := rand.New(rand.NewSource(r.Int63()))
		go func(g int) {
			defer wg.Done()
			for k := 0; k < 5; k++ {
				time.Sleep(time.Duration(gr.Int63n(int64(horizon / 5))))
				seed := uint32(ci)*1000 + uint32(g*50+k+1)
				rec := &c18CallRec{Seed: seed, Start: time.Since(e.srv.start)}
				if gr.Intn(2) == 0 {
					rec.Kind = "PostMerkleProofs"
					mp := merkle_proof.NewMerkleProof(*vTx(seed).TxHash())
					mp.Index = 0
					hd := vHeader(seed)
					mp.BlockHeader = &hd
					rec.Err = e.rc.PostMerkleProofs(vQuiet, []*merkle_proof.MerkleProof{mp})
				} else {
					rec.Kind = "GetTx"
					_, rec.Err = e.rc.GetTx(vQuiet, *vTx(seed).TxHash())
				}
				rec.End = time.Since(e.srv.start)
				cmu.Lock()
				calls = append(calls, rec)
				cmu.Unlock()
			}
		}(g)
	}
	done := make(chan struct{})
	go func() { wg.Wait(); close(done) }()
	select {
	case <-done:
	case <-time.After(20 * time.Second):
		rep.Inconc(ci, "application calls did not return")
		e.stop(3 * time.Second)
		return
	}
	time.Sleep(150 * time.Millisecond)
	conns := e.srv.connections()
	e.stop(3 * time.Second)
	_ = srvStart

	mu.Lock()
	defer mu.Unlock()
	planStr := fmt.Sprint(connType, plans)
	w := func() interface{} {
		var cs []string
		for _, vc := range conns {
			info := infos[vc.id]
			if info == nil {
				continue
			}
			var types []string
			for _, a := range vc.snapshot() {
				types = append(types, fmt.Sprintf("%s@%v", MessageTypeNames[a.Type], a.At.Round(time.Millisecond)))
			}
			cs = append(cs, fmt.Sprintf("conn%d plan=%+v reg@%v handshake-point@%v arrivals=%v", vc.id, info.plan, info.regAt.Round(time.Millisecond), info.hpAt.Round(time.Millisecond), types))
		}
		var cl []string
		for _, c := range calls {
			cl = append(cl, fmt.Sprintf("%s seed=%d [%v,%v] err=%s", c.Kind, c.Seed, c.Start.Round(time.Millisecond), c.End.Round(time.Millisecond), fmtErr(c.Err)))
		}
		return map[string]interface{}{"connection_type": connType.String(), "connections": cs, "calls": cl}
	}
	hashes := map[bitcoin.Hash32]int{}
	for _, vc := range conns {
		info := infos[vc.id]
		if info == nil {
			continue
		}
		if !vc.regOK {
			rep.Finding(ci, "C18/register-signature-invalid", fmt.Sprintf("register of connection %d does not verify under the configured client key", vc.id), w())
		}
		if info.acceptedWithoutAccept {
			rep.Finding(ci, "C18/accepted-without-accept/"+connType.String(), fmt.Sprintf("connection %d never got an accept message, yet IsAccepted() was true 30 ms after its register arrived (the previous connection had been accepted and dropped at once)", vc.id), w())
		}
		if prev, dup := hashes[info.hash]; dup {
			rep.Finding(ci, "C18/register-hash-reused", fmt.Sprintf("connections %d and %d used the same session hash", prev, vc.id), w())
		}
		hashes[info.hash] = vc.id
		// (a) nothing but handshake types before the handshake point
		arr := vc.snapshot()
		vc.mu.Lock()
		acceptIdx, readyIdx := vc.acceptSentAt, vc.readySeq
		vc.mu.Unlock()
		for _, a := range arr {
			if IsHandshakeType(a.Type) {
				continue
			}
			early := false
			if connType == ConnectionTypeFull {
				early = readyIdx < 0 || a.Seq < readyIdx
			} else {
				early = acceptIdx < 0 || a.Seq < acceptIdx
			}
			if early {
				rep.Finding(ci, "C18/gating/early-"+MessageTypeNames[a.Type]+"/"+connType.String()+"/"+info.plan.Kind, fmt.Sprintf("connection %d (%s) received %s before its handshake point", vc.id, info.plan.Kind, MessageTypeNames[a.Type]), w())
				break
			}
		}
		rep.Event("connections:"+info.plan.Kind, 1)
	}
	// (b) a call reported as sent must overlap a window in which some connection was past its
	// handshake point (window = [handshake point, arrival of the next connection's register])
	type win struct{ from, to time.Duration }
	var wins []win
	for id := 0; id < len(conns); id++ {
		info := infos[id]
		if info == nil || info.hpAt == 0 {
			continue
		}
		to := time.Duration(1 << 62)
		if nx := infos[id+1]; nx != nil {
			to = nx.regAt
		}
		wins = append(wins, win{info.hpAt, to})
	}
	for _, c := range calls {
		rep.Event("calls:"+c.Kind, 1)
		sent := c.Err == nil || (c.Kind == "GetTx" && errors.Cause(c.Err) == ErrTimeout && !strings.Contains(c.Err.Error(), "add to send channel") && !strings.Contains(c.Err.Error(), "wait for response"))
		if c.Kind == "GetTx" && c.Err != nil {
			sent = false // a failed GetTx makes no claim that the request was written
		}
		if !sent {
			rep.Event("calls_failed", 1)
			continue
		}
		ok := false
		for _, wn := range wins {
			if c.End >= wn.from && c.Start <= wn.to {
				ok = true
			}
		}
		if !ok {
			rep.Finding(ci, "C18/gating/reported-sent-outside-any-handshaken-connection/"+c.Kind+"/"+connType.String(), fmt.Sprintf("%s [%v,%v] returned success although no connection was past its handshake point during the call", c.Kind, c.Start.Round(time.Millisecond), c.End.Round(time.Millisecond)), w())
		}
	}
	rep.Case("gating/"+planStr, len(plans) > 1)
	if rep.WantSample() {
		rep.Sample(w())
	}
}

func TestVerif_C18(t *testing.T) {
	rep := verifkit.NewReport("C18")
	rep.Rule = "forgery rounds: one of 6 forged accepts (root key, key for another hash, signature by another key, signature over another hash, counts altered after signing, replay of the previous connection's accept) or the correct one, on a full or control connection, followed by a Tx/Headers/InSync/TxUpdate burst; gating rounds: 1-4 connection plans (accept after d ms then drop after l ms / close before accept / never accept / unknown message type instead of an accept) while 3 application goroutines issue PostMerkleProofs and GetTx calls at random moments; the per-connection arrival log of the scripted server is judged. Non-trivial = forged accept, or more than one connection; distinct by (forgery, connection type) / plan list"
	rep.Assumptions = []string{"legitimate send window of a connection = [moment the server starts writing the correct accept, arrival of the next connection's register]", "a failed call makes no claim of having been sent"}
	defer rep.Write()
	// widen the teardown window: between "make sure the sender is not waiting for the handshake"
	// and closing the connection (two critical sections of runConnection, not inside a lock)
	verifhook.Set("client.connection.beforeClose", func(ctx context.Context, site string) { time.Sleep(15 * time.Millisecond) })
	defer func() {
		rep.Event("hook_hits:client.connection.beforeClose", verifhook.Hits("client.connection.beforeClose"))
		verifhook.Set("client.connection.beforeClose", nil)
	}()
	n := verifkit.N(150, 5000)
	for ci := 0; ci < n; ci++ {
		if !verifkit.Mine(ci) {
			continue
		}
		r := verifkit.Rand("C18", ci)
		if ci%3 == 0 {
			c18Forgery(rep, ci, r)
		} else {
			c18Gating(rep, ci, r)
		}
	}
}
