#!/bin/bash
# Runs the repository's own test suite with the verif guard OFF and prints pass/fail counts.
export GOFLAGS=-mod=mod GOPROXY=off GOSUMDB=off GOTOOLCHAIN=local
cd "${VERIF_REPO:-/repo}" || exit 2
out=$(go test -json -vet=off -count=1 -timeout 25m ./... 2>&1)
rc=$?
pass=$(echo "$out" | grep -c '"Action":"pass","Package":"[^"]*","Test"')
fail=$(echo "$out" | grep -c '"Action":"fail","Package":"[^"]*","Test"')
echo "baseline: pass=$pass fail=$fail rc=$rc"
if [ "$fail" != "0" ] || [ "$rc" != "0" ]; then echo "$out" | grep -E '"Action":"fail"|FAIL|panic' | head -20; exit 1; fi
[ "$pass" -ge 45 ] || { echo "expected >=45 passing tests"; exit 1; }
