//go:build verif

package spynode

import (
	"strings"
	"fmt"
	"math/rand"
	"testing"

	"github.com/tokenized/pkg/bitcoin"
	"github.com/tokenized/pkg/wire"
	"github.com/tokenized/spynode/internal/verifkit"
)

// ---- C12 (DS): hostile untrusted peers next to a well-behaved trusted peer ------------------------------

type advConn struct {
	u        *untrustedConn
	name     string
	dead     bool // the handler returned an error: the real node drops the connection
	verified bool
	sentTxs  map[bitcoin.Hash32]bool
}

type adversary struct {
	s      *dsSim
	r      *rand.Rand
	conns  []*advConn
	other  *verifkit.Tree // a chain the node knows nothing about
	otherT *verifkit.Block
	uni    *verifkit.Universe
	subs   [][]byte
	txs    map[bitcoin.Hash32]*wire.MsgTx // every tx an untrusted peer sent (relevant ones)
	txFrom map[bitcoin.Hash32]*advConn
	acts   map[string]int
}

func (a *adversary) act() {
	s := a.s
	c := a.conns[a.r.Intn(len(a.conns))]
	if c.dead {
		// the node would connect to the next peer
		c.u = s.e.newUntrusted(c.name)
		c.dead, c.verified = false, false
	}
	send := func(kind string, m wire.Message) {
		a.acts[kind]++
		s.tracef("untrusted %s -> node: %s (%s)", c.name, describeMsg(m), kind)
		var resp []wire.Message
		var err error
		s.guard("untrusted "+kind, func() { resp, err = c.u.handle(s.e.ctx, m) })
		if err != nil {
			c.dead = true
		}
		c.verified = c.u.st.IsReady()
		for _, rm := range resp {
			if gd, ok := rm.(*wire.MsgGetData); ok && !c.verified {
				for _, iv := range gd.InvList {
					if iv.Type == wire.InvTypeTx {
						s.find("C12", "C12/unverified-peer-asked-for-tx", fmt.Sprintf("getdata(tx) sent to %s, which never proved it is on the same chain", c.name))
					}
				}
			}
		}
		// transactions it queued are processed by the node's tx processor
		s.guard("tx processor", func() { s.e.pumpTxs() })
		s.afterStep("untrusted:" + kind)
	}
	n := s.e.node
	tip := n.blocks.LastHeight()
	switch k := a.r.Intn(100); {
	case k < 12: // a valid proof of being on the same chain
		from := tip - a.r.Intn(5)
		if from < 0 {
			from = 0
		}
		hm := wire.NewMsgHeaders()
		for h := from; h <= tip; h++ {
			hd, err := n.blocks.Header(s.e.ctx, h)
			if err == nil {
				hm.AddBlockHeader(hd)
			}
		}
		send("headers-valid-proof", hm)
	case k < 22: // headers of a hostile shape
		hm := wire.NewMsgHeaders()
		switch a.r.Intn(4) {
		case 0: // unknown first
			for _, b := range a.otherT.Chain()[1:4] {
				hd := b.Header
				hm.AddBlockHeader(&hd)
			}
		case 1: // too low
			if hd, err := n.blocks.Header(s.e.ctx, 0); err == nil {
				hm.AddBlockHeader(hd)
			}
		case 2: // known first, unlinked rest
			if hd, err := n.blocks.Header(s.e.ctx, tip); err == nil {
				hm.AddBlockHeader(hd)
			}
			hd := a.otherT.Header
			hm.AddBlockHeader(&hd)
		}
		send("headers-hostile", hm)
	case k < 45: // block messages on the untrusted connection
		q := n.state.VerifQueue()
		var pending []bitcoin.Hash32
		for _, rq := range q.Requested {
			if !rq.HasBody {
				pending = append(pending, rq.Hash)
			}
		}
		if len(pending) > 0 && a.r.Intn(4) > 0 {
			h := pending[a.r.Intn(len(pending))]
			b := s.peer.tree.ByHash[h]
			if b != nil {
				if k := a.r.Intn(4); k == 0 {
					send("block-genuine-for-outstanding-request", blockMsg(b.Msg(), a.r.Intn(2) == 0))
				} else if k == 1 {
					for i := 0; i < 3 && !c.dead; i++ {
						send("block-genuine-repeated", blockMsg(b.Msg(), a.r.Intn(2) == 0))
					}
				} else {
					// header of an outstanding trusted request, different body
					body := []*wire.MsgTx{b.Txs[0], verifkit.Coinbase(31337, uint32(a.r.Intn(1000)))}
					send("block-bogus-body-for-outstanding-request", blockMsg(b.MsgWithTxs(body), a.r.Intn(2) == 0))
				}
				return
			}
		}
		send("block-unrequested", blockMsg(a.otherT.Msg(), true))
	case k < 70: // transactions (relevant): inv then tx, or bare
		tx := a.uni.Build(a.r, verifkit.TxSpec{Inputs: []wire.OutPoint{a.uni.Order[a.r.Intn(len(a.uni.Order))]}, Outputs: [][]byte{verifkit.P2PKH(a.subs[0])}})
		id := *tx.TxHash()
		a.txs[id] = tx
		a.txFrom[id] = c
		wasVerified := c.verified
		if a.r.Intn(2) == 0 {
			inv := wire.NewMsgInv()
			inv.AddInvVect(wire.NewInvVect(wire.InvTypeTx, &id))
			send("inv", inv)
		}
		if !c.dead {
			send("tx", tx)
		}
		if !wasVerified && !c.verified {
			c.sentTxs[id] = true // sent while unverified: must never reach a handler
		}
	case k < 80: // addr flood
		am := wire.NewMsgAddr()
		for i := 0; i < 50; i++ {
			am.AddAddress(wire.NewNetAddressIPPort([]byte{10, byte(a.r.Intn(256)), byte(a.r.Intn(256)), 1}, 8333, 0))
		}
		send("addr-flood", am)
	default:
		send("ping", wire.NewMsgPing(uint64(a.r.Int63())))
	}
}

func TestVerif_C12(t *testing.T) {
	rep := verifkit.NewReport("C12")
	rep.Rule = "DS: the C01 scenarios (well-behaved trusted peer, extends / reorgs / restarts / drops) with 1-3 simulated untrusted connections acting between scheduling steps: valid and hostile header proofs, inv/tx before and after verification, block messages (genuine block of an outstanding trusted request, same header with a different body, unrequested blocks of a foreign chain), addr floods; invariants that must hold with or without the adversary: convergence to the trusted chain (C01 oracle), every confirmation proof belongs to a block of the trusted tree, an unverified peer is never asked for transactions and none of its transactions reaches a handler, transactions of untrusted peers are never reported safe. Non-trivial = the adversary acted on an outstanding request or got verified; distinct by scenario shape + adversary action multiset"
	rep.Assumptions = []string{"untrusted connections are driven at the handler level (NewUntrustedMessageHandlers), a handler error ends the connection as UntrustedNode does", "no delay checker runs in this engine: 'safe' can only come from the code paths under test"}
	defer rep.Write()
	nShort, nLong := verifkit.N(300, 12000), verifkit.N(6, 200)
	for ci := 0; ci < nShort+nLong; ci++ {
		if !verifkit.Mine(ci) {
			continue
		}
		ci := ci
		verifkit.RunCase(rep, ci, func() {
			r := verifkit.Rand("C12", ci)
			sc := c01Generate(r, ci >= nShort)
			adv := &adversary{r: rand.New(rand.NewSource(r.Int63())), other: verifkit.NewTree(), uni: verifkit.NewUniverse(r, 6),
				txs: map[bitcoin.Hash32]*wire.MsgTx{}, txFrom: map[bitcoin.Hash32]*advConn{}, acts: map[string]int{}}
			adv.otherT = adv.other.ExtendN(adv.other.Genesis, 6)
			adv.subs = [][]byte{randB(r, 20)}
			nconn := 1 + r.Intn(3)
			pct := 10 + r.Intn(40)
			s, err := c12Run(r, sc, adv, nconn, pct)
			if err != nil {
				rep.Inconc(ci, err.Error())
				return
			}
			// callbacks: proofs only for blocks of the trusted tree; untrusted txs never safe;
			// transactions sent while unverified never delivered
			for _, ev := range s.e.log.snapshot() {
				if ev.Kind != "tx" && ev.Kind != "update" {
					continue
				}
				if mp := ev.State.MerkleProof; mp != nil {
					if b := s.peer.tree.ByHash[*mp.BlockHeader.BlockHash()]; b == nil {
						s.find("C12", "C12/confirmation-for-foreign-block", "a notification carries a proof for a block the trusted peer never announced")
					}
				}
				if _, fromAdv := adv.txs[ev.TxID]; fromAdv {
					if ev.State.Safe {
						s.find("C12", "C12/untrusted-tx-reported-safe", "a transaction only untrusted peers sent was reported safe")
					}
					if c := adv.txFrom[ev.TxID]; c != nil && c.sentTxs[ev.TxID] {
						s.find("C12", "C12/unverified-peer-tx-delivered", "a transaction sent by a peer that was not verified at the time reached a handler")
					}
				}
			}
			for _, f := range s.finds {
				sig := f.sig
				if f.prop == "C01" || f.prop == "C13" {
					sig = "C12/" + f.sig // trusted-side invariant broken in the presence of the adversary
				} else if f.prop != "C12" {
					rep.Event("other_property_findings:"+f.sig, 1)
					continue
				}
				w := s.witness()
				w["scenario"] = sc
				w["adversary_actions"] = adv.acts
				rep.Finding(ci, sig, f.detail+" | adversary actions: "+fmt.Sprint(adv.acts), w)
			}
			nt := adv.acts["block-bogus-body-for-outstanding-request"]+adv.acts["block-genuine-for-outstanding-request"]+adv.acts["headers-valid-proof"] > 0
			for k, v := range adv.acts {
				rep.Event("adversary:"+k, int64(v))
			}
			rep.Event("scenarios", 1)
			rep.Case(c01Fingerprint(sc)+fmt.Sprint(adv.acts), nt)
			if rep.WantSample() && nt {
				rep.Sample(map[string]interface{}{"scenario": fmt.Sprint(sc.Steps), "adversary_actions": adv.acts})
			}
		})
	}
}

// c12Run is c01Run with the adversary hooked into the scheduler.
func c12Run(r *rand.Rand, sc c01Scenario, adv *adversary, nconn, pct int) (*dsSim, error) {
	return c01RunHook(r, sc, false, func(s *dsSim) {
		adv.s = s
		adv.conns = nil
		for i := 0; i < nconn; i++ {
			name := fmt.Sprintf("10.9.9.%d:8333", i+1)
			adv.conns = append(adv.conns, &advConn{u: s.e.newUntrusted(name), name: name, sentTxs: map[bitcoin.Hash32]bool{}})
		}
		s.e.node.SubscribePushDatas(s.e.ctx, adv.subs)
		s.e.fetch.uni = adv.uni
		s.between = func() {
			if adv.r.Intn(100) < pct {
				adv.act()
			}
		}
	})
}


// ---- C12 over transaction histories (DD): untrusted deliveries never produce a safe / confirmed report --

func TestVerif_C12Tx(t *testing.T) {
	rep := verifkit.NewReport("C12")
	defer rep.Write()
	n := verifkit.N(2000, 100000)
	for ci := 0; ci < n; ci++ {
		if !verifkit.Mine(ci) {
			continue
		}
		ci := ci
		verifkit.RunCase(rep, ci, func() {
			r := verifkit.Rand("C12/tx", ci)
			w, fp, err := c03ScenarioOpt(r, false, ci%3 == 0)
			if err != nil {
				rep.Inconc(ci, err.Error())
				return
			}
			for _, f := range w.finds {
				if f.prop == "C12" {
					rep.Finding(ci, f.sig, f.detail+" | history "+fp, w.witness())
				}
			}
			rep.Event("tx_histories_with_untrusted_deliveries", 1)
			rep.Case(fp, strings.Contains(fp, "G") || strings.Contains(fp, "S"))
		})
	}
}
