//go:build verif

package client

import (
	"io"
	"bytes"
	"encoding/hex"
	"fmt"
	"runtime"
	"strings"
	"testing"

	"github.com/tokenized/pkg/wire"
	"github.com/tokenized/spynode/internal/verifkit"
)

// ---- C20: decoding hostile bytes (client protocol messages) ------------------------------------------
//
// Decoding runs in a probe child under an address-space limit; the parent attributes a death to the
// input in flight.  The child measures heap allocation per input.

// c20Decode is the child's handler: decode one message, report outcome and bytes allocated.
func c20Decode(p []byte) string {
	var before, after runtime.MemStats
	runtime.ReadMemStats(&before)
	m := &Message{}
	err := m.Deserialize(bytes.NewReader(p))
	runtime.ReadMemStats(&after)
	alloc := after.TotalAlloc - before.TotalAlloc
	res := "OK"
	if err != nil {
		res = "ERR"
	} else if m.Payload != nil {
		// "returns a value": the value must be a message, not a structure with holes - encoding
		// what was decoded must not panic (a panic here is reported by the child loop with the
		// frame of the encoder that met the hole)
		func() {
			defer func() {
				if r := recover(); r != nil {
					res = fmt.Sprintf("UNUSABLE %v @ %s", r, verifkit.PanicFrame())
				}
			}()
			m.Serialize(io.Discard)
		}()
	}
	if strings.HasPrefix(res, "UNUSABLE") {
		return res
	}
	return fmt.Sprintf("%s %d", res, alloc)
}

func TestVerif_Child(t *testing.T) {
	switch verifkit.ChildKind() {
	case "":
		t.Skip("not a probe child")
	case "c20-msg":
		verifkit.ServeChild(3<<30, c20Decode)
	}
}

var c20Splices = [][]byte{
	{0xfd, 0xff, 0xff},
	{0xfe, 0xff, 0xff, 0xff, 0xff},
	{0xff, 0x00, 0x00, 0x00, 0x00, 0x01, 0x00, 0x00, 0x00},
	{0xff, 0xff, 0xff, 0xff, 0xff, 0xff, 0xff, 0xff, 0xff},
	{0xff, 0xff, 0xff, 0xff, 0xff, 0xff, 0xff, 0xff, 0x7f},
	{0xfe, 0x00, 0x00, 0x00, 0x02}, // 32 Mi: a "plausible" claim that passes sanity limits
	{0xfe, 0x00, 0x00, 0x40, 0x00}, // 4 Mi
}

// C20Judge classifies one probe answer; returns (rule, detail) or "".
func c20Judge(ans string, crash *verifkit.Crash, inputLen int) (string, string) {
	if crash != nil {
		switch crash.Kind {
		case "infrastructure", "exit":
			l := crash.Log
			if len(l) > 400 {
				l = l[:400]
			}
			return "INCONCLUSIVE", crash.Fatal + " | child stderr: " + strings.ReplaceAll(l, "\n", " / ")
		case "timeout":
			return "INCONCLUSIVE", "decode did not finish within the watchdog"
		case "no-termination":
			return "no-termination/" + crash.Frame, crash.Fatal
		}
		return crash.Kind + "/" + crash.Frame, crash.Fatal
	}
	if strings.HasPrefix(ans, "PANIC") {
		frame := "?"
		if i := strings.LastIndex(ans, " @ "); i >= 0 {
			frame = ans[i+3:]
		}
		return "panic/" + frame, ans
	}
	if strings.HasPrefix(ans, "UNUSABLE") {
		frame := "?"
		if i := strings.LastIndex(ans, " @ "); i >= 0 {
			frame = ans[i+3:]
		}
		return "decoded-value-unusable/" + frame, "decoding returned no error, but encoding the returned value panics: " + ans
	}
	var res string
	var alloc uint64
	fmt.Sscanf(ans, "%s %d", &res, &alloc)
	if alloc > 1<<20+64*uint64(inputLen) {
		return "alloc-out-of-proportion", fmt.Sprintf("decoding %d input bytes allocated %d bytes (limit 1 MiB + 64*len), outcome %s", inputLen, alloc, res)
	}
	return "", ""
}

func TestVerif_C20(t *testing.T) {
	rep := verifkit.NewReport("C20")
	rep.Rule = "inputs: for every message type, generated valid encodings with a maximal varint (0xfd ffff, 0xfe ffffffff, 0xff 2^32, 0xff 2^64-1, 0xff 2^63-1) or a mid-range claim (4 Mi, 32 Mi) spliced in at every byte offset (every offset of the first 64 bytes, then a stride: about 130 offsets per encoding in the quick tier, 400 in the thorough tier), plus random strings behind every valid type code and random type codes; each input is decoded in a probe child (address space limited to 3 GiB) that reports outcome and bytes allocated; a panic, a process-fatal error or allocation above 1 MiB + 64*len(input) is a finding with signature (message type, kind, dying function). Non-trivial = the decoder got past the type code; distinct by (type, splice, offset class, outcome)"
	rep.Assumptions = []string{"TotalAlloc delta measured with runtime.ReadMemStats around the call in the child", "a death of the probe child before it serves an input is infrastructure (inconclusive), not a finding"}
	defer rep.Write()

	child := verifkit.NewChild("c20-msg")
	defer child.Close()
	perType := verifkit.N(2, 60)
	ci := 0
	spins := map[string]int{}
	probe := func(typ string, region string, shape string, in []byte) {
		if spins[typ] >= 4 {
			// every non-terminating decode costs 5 CPU-seconds; four witnesses per type are enough
			rep.Event("inputs_skipped_after_four_non_terminating_decodes", 1)
			return
		}
		ans, crash, err := child.Probe(in)
		rep.Event("inputs_decoded", 1)
		if err != nil {
			rep.Inconc(ci, err.Error())
			return
		}
		rule, detail := c20Judge(ans, crash, len(in))
		if rule == "INCONCLUSIVE" {
			rep.Inconc(ci, detail)
			return
		}
		if strings.HasPrefix(ans, "OK") {
			rep.Event("outcome:value", 1)
		} else if strings.HasPrefix(ans, "ERR") {
			rep.Event("outcome:error", 1)
		}
		if strings.HasPrefix(rule, "no-termination") {
			spins[typ]++
		}
		if rule != "" {
			h := hex.EncodeToString(in)
			if len(h) > 2000 {
				h = h[:2000] + "..."
			}
			rep.Finding(ci, "C20/"+typ+"/"+rule+"/"+region, detail+" | "+shape, map[string]interface{}{"type": typ, "shape": shape, "hex": h})
		}
	}
	for _, typ := range VerifAllTypes {
		name := MessageTypeNames[typ]
		for k := 0; k < perType; k++ {
			ci++
			if !verifkit.Mine(ci) {
				continue
			}
			r := verifkit.Rand("C20/"+name, k)
			payload := VerifPayload(r, typ)
			enc, err := encodeMsg(payload)
			if err != nil {
				continue
			}
			// byte ranges of embedded wire.MsgTx encodings (decoded by the dependency)
			var txRanges [][2]int
			for _, etx := range c20EmbeddedTxs(payload) {
				var tb bytes.Buffer
				etx.Serialize(&tb)
				if i := bytes.Index(enc, tb.Bytes()); i >= 0 {
					txRanges = append(txRanges, [2]int{i, i + tb.Len()})
				}
			}
			regionOf := func(off int) string {
				for _, rg := range txRanges {
					if off >= rg[0] && off < rg[1] {
						return "splice-in-embedded-msgtx"
					}
				}
				return "splice-in-own-fields"
			}
			if len(enc) > 700 {
				enc = enc[:700] // keep the number of offsets bounded; truncation is hostile too
			}
			// quick tier: every offset of the first 64 bytes, then a stride (at most ~130 offsets);
			// an input that kills the child costs a respawn, and long encodings with an embedded
			// transaction do so at most offsets
			stride := 1
			if !verifkit.Thorough() && len(enc) > 130 {
				stride = (len(enc)-64)/66 + 1
			} else if verifkit.Thorough() && len(enc) > 400 {
				stride = (len(enc)-64)/336 + 1
			}
			for off := 1; off < len(enc); off++ {
				if off > 64 && (off-64)%stride != 0 {
					continue
				}
				for si, sp := range c20Splices {
					in := append(append(append([]byte(nil), enc[:off]...), sp...), enc[off+1:]...)
					probe(name, regionOf(off), fmt.Sprintf("valid %s encoding with splice %d at offset %d", name, si, off), in)
				}
			}
			// random tails behind the type code
			for j := 0; j < 20; j++ {
				tail := make([]byte, r.Intn(200))
				r.Read(tail)
				if len(tail) > 0 && r.Intn(2) == 0 {
					tail[0] = c20Splices[r.Intn(len(c20Splices))][0]
				}
				probe(name, "random-tail", "random bytes behind the type code", append(append([]byte(nil), enc[:1+boolInt(typ >= 0xfd)*2]...), tail...))
			}
			rep.Case(fmt.Sprintf("%s/%d", name, len(enc)%11), true)
			if rep.WantSample() {
				rep.Sample(map[string]interface{}{"type": name, "valid_encoding_hex": hex.EncodeToString(enc[:minInt(len(enc), 120)]), "splices": "7 varint values at every offset + 20 random tails"})
			}
		}
	}
	// random type codes / pure noise
	for k := 0; k < verifkit.N(400, 40000); k++ {
		ci++
		if !verifkit.Mine(ci) {
			continue
		}
		r := verifkit.Rand("C20/noise", k)
		in := make([]byte, 1+r.Intn(300))
		r.Read(in)
		// the first bytes decide which decoder gets the rest: name the finding after it
		name := "noise"
		if t, err := wire.ReadVarInt(bytes.NewReader(in), wire.ProtocolVersion); err == nil {
			if n, ok := MessageTypeNames[t]; ok {
				name = n
			}
		}
		probe(name, "noise", "random bytes", in)
		rep.Case("noise", false)
	}
	rep.Event("probe_children_spawned", int64(child.Spawns))
}

func c20EmbeddedTxs(p MessagePayload) []*wire.MsgTx {
	var out []*wire.MsgTx
	switch m := p.(type) {
	case *SendTx:
		out = append(out, m.Tx)
	case *BaseTx:
		out = append(out, m.Tx)
	case *Tx:
		out = append(out, m.Tx)
	case *SendExpandedTx:
		out = append(out, m.Tx.Tx)
		for _, a := range m.Tx.Ancestors {
			out = append(out, a.Tx)
		}
	case *SaveTxs:
		for _, a := range m.Txs {
			out = append(out, a.Tx)
		}
	}
	return out
}

func boolInt(b bool) int {
	if b {
		return 1
	}
	return 0
}

func minInt(a, b int) int {
	if a < b {
		return a
	}
	return b
}
