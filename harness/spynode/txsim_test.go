//go:build verif

package spynode

import (
	"sync"
	"strings"
	"sync/atomic"
	"bytes"
	"fmt"
	"math/rand"
	"time"

	"github.com/tokenized/pkg/bitcoin"
	"github.com/tokenized/pkg/wire"
	"github.com/tokenized/spynode/internal/verifkit"
)

// ---- DD with transactions: shared runner for C03 C04 C05 C06 C11 ---------------------------------------

type txInfo struct {
	name     string
	tx       *wire.MsgTx
	id       bitcoin.Hash32
	relevant bool
	why      string // how it is relevant: out-push in-push hashed-out none
	spends   []wire.OutPoint
	// history (ground truth, filled while running)
	processedUnconf int  // times processUnconfirmedTx ran for it with the node in sync
	firstSeenReady  bool // first unconfirmed processing happened while provably in sync
	local           bool
	confirmedAt     []int // heights of processed blocks that contained it
	orphaned        int   // times a block containing it was reverted
	trustedVouched  bool
}

type txWorld struct {
	e       *ddEnv
	r       *rand.Rand
	tree    *verifkit.Tree
	tip     *verifkit.Block // peer's (and after sync the node's) tip
	uni     *verifkit.Universe
	subs    [][]byte // subscribed 20-byte values
	pubkeys [][]byte // 33-byte data whose hash160 is subscribed
	txs     []*txInfo
	byID    map[bitcoin.Hash32]*txInfo
	untr    []*untrustedConn
	trace   []string
	finds   []simFinding
	start   int
	blocksProcessed map[bitcoin.Hash32]bool
	safeDelayMS     int
	judgeFrom       int // callbacks before this sequence number are ignored by checkC04
	// transactions whose bodies reach the node while the next block is being processed: they are
	// handed to the incoming side and the tx processor on a second goroutine, started from inside
	// the midBlockAt-th handler callback of that block (as the real goroutines would overlap)
	midBlock   []*txInfo
	midBlockAt int
	midBlocks  int
}

func (w *txWorld) tracef(f string, a ...interface{}) {
	if len(w.trace) < 400 {
		w.trace = append(w.trace, fmt.Sprintf(f, a...))
	}
}

var txWorldFindMu sync.Mutex

func (w *txWorld) find(prop, sig, detail string) {
	txWorldFindMu.Lock()
	defer txWorldFindMu.Unlock()
	for _, f := range w.finds {
		if f.sig == sig {
			return
		}
	}
	w.finds = append(w.finds, simFinding{prop, sig, detail})
}

func (w *txWorld) guard(what string, f func()) (ok bool) {
	defer func() {
		if p := recover(); p != nil {
			ok = false
			w.find("C03", "C03/panic/"+verifkit.PanicFrame(), fmt.Sprintf("panic in %s: %v", what, p))
		}
	}()
	f()
	return true
}

// newTxWorld builds a node that is in sync with a short chain and subscribed to a few hashes.
func newTxWorld(r *rand.Rand, store *verifkit.Store, initial, start int) (*txWorld, error) {
	w := &txWorld{r: r, tree: verifkit.NewTree(), uni: verifkit.NewUniverse(r, 8), byID: map[bitcoin.Hash32]*txInfo{}, start: start, blocksProcessed: map[bitcoin.Hash32]bool{}}
	for i := 0; i < 3; i++ {
		h := make([]byte, 20)
		r.Read(h)
		w.subs = append(w.subs, h)
		pk := make([]byte, 33)
		r.Read(pk)
		w.pubkeys = append(w.pubkeys, pk)
	}
	w.tip = w.tree.ExtendN(w.tree.Genesis, initial)
	if err := w.boot(store); err != nil {
		return nil, err
	}
	return w, nil
}

// boot creates the node on the store and syncs it with the peer's chain (DS pump).
func (w *txWorld) boot(store *verifkit.Store) error {
	var subs [][]byte
	subs = append(subs, w.subs...)
	for _, pk := range w.pubkeys {
		subs = append(subs, pk) // raw data: subscribed through its hash160
	}
	var oldLog *eventLog
	if w.e != nil {
		oldLog = w.e.log
	}
	e, err := newDD(ddOpt{store: store, startHash: w.tip.Ancestor(w.start).Hash, pushDatas: subs, uni: w.uni, safeDelayMS: w.safeDelayMS})
	if err != nil {
		return err
	}
	if oldLog != nil {
		e.log = oldLog
		for _, h := range e.node.handlers {
			h.(*recorder).log = oldLog
		}
	}
	w.e = e
	w.untr = nil
	peer := newSimPeer(w.tree, w.tip)
	s := newDSSim(e, peer, w.r, simPolicy{fairness: 3})
	s.connect()
	s.settle("boot")
	for i := 0; i < 3 && !e.node.state.IsReady(); i++ {
		// converged but still waiting for a headers reply that changed nothing: let the
		// header time-out fire, as the real node would after 60 s
		e.node.state.VerifAge(11 * time.Minute)
		if err := e.node.state.CheckTimeouts(); err != nil {
			s.reconnect()
		}
		s.pump(20000)
	}
	e = s.e
	w.e = e
	if ok, why := s.converged(); !ok || !e.node.state.IsReady() {
		return fmt.Errorf("boot: node did not sync (%s, ready=%v)", why, e.node.state.IsReady())
	}
	// online (C04): a notification's merkle proof is for a block the node holds at that moment
	node := e.node
	e.log.onEvent = func(ev recEvent) {
		if ev.Handler != 0 || (ev.Kind != "tx" && ev.Kind != "update") || ev.State.MerkleProof == nil {
			return
		}
		h := *ev.State.MerkleProof.BlockHeader.BlockHash()
		if !node.blocks.Contains(&h) {
			name := ev.TxID.String()[:8]
			if ti := w.byID[ev.TxID]; ti != nil {
				name = ti.name
			}
			w.find("C04", "C04/proof-for-block-not-held/"+ev.Kind, fmt.Sprintf("%s: %s notification carries a merkle proof for block %s, which the node does not hold (it was orphaned)", name, ev.Kind, h.String()[:8]))
		}
	}
	for _, b := range w.tip.Chain() {
		if !w.blocksProcessed[b.Hash] && b.Height >= w.start {
			// processed during this (re)sync: blocks mined while the node was down
			for _, tx := range b.Txs[1:] {
				if ti := w.byID[*tx.TxHash()]; ti != nil {
					ti.confirmedAt = append(ti.confirmedAt, b.Height)
				}
			}
		}
		w.blocksProcessed[b.Hash] = true
	}
	return nil
}

// mineOffline extends the peer's chain while the node is not running (or not connected).
func (w *txWorld) mineOffline(txs []*txInfo) *verifkit.Block {
	var ms []*wire.MsgTx
	names := ""
	for _, t := range txs {
		ms = append(ms, t.tx)
		names += t.name + " "
	}
	w.tip = w.tree.Extend(w.tip, ms)
	w.tracef("peer mines block %d with [%s] while the node is down", w.tip.Height, names)
	return w.tip
}

// makeTx builds a transaction. kind: out-push in-push hashed-out none
func (w *txWorld) makeTx(kind string, inputs []wire.OutPoint) *txInfo {
	spec := verifkit.TxSpec{Inputs: inputs}
	rel := true
	switch kind {
	case "out-push":
		spec.Outputs = [][]byte{verifkit.P2PKH(w.subs[w.r.Intn(len(w.subs))]), verifkit.P2PKH(randB(w.r, 20))}
	case "in-push":
		spec.Unlocking = [][]byte{append(verifkit.PushScript(randB(w.r, 71)), verifkit.PushScript(w.pubkeys[w.r.Intn(len(w.pubkeys))])...)}
		spec.Outputs = [][]byte{verifkit.P2PKH(randB(w.r, 20))}
	case "hashed-out": // output pushes the 33-byte data whose hash is subscribed
		spec.Outputs = [][]byte{append(verifkit.PushScript(w.pubkeys[w.r.Intn(len(w.pubkeys))]), 0xac)}
	default:
		kind = "none"
		rel = false
		spec.Outputs = [][]byte{verifkit.P2PKH(randB(w.r, 20))}
	}
	tx := w.uni.Build(w.r, spec)
	ti := &txInfo{name: fmt.Sprintf("t%d", len(w.txs)), tx: tx, id: *tx.TxHash(), relevant: rel, why: kind, spends: inputs}
	w.txs = append(w.txs, ti)
	w.byID[ti.id] = ti
	return ti
}

// checkerStep re-issues one iteration of checkTxDelays with a cut-off in the future (every safe
// delay has elapsed); returns how many transactions it reported safe.
func (w *txWorld) checkerStep() int {
	n := w.e.node
	if !n.state.IsReady() {
		return 0
	}
	txids, err := n.txs.GetNewSafe(w.e.ctx, n.memPool, time.Now().Add(time.Hour))
	if err != nil {
		return 0
	}
	for _, id := range txids {
		n.markTxSafe(w.e.ctx, id)
	}
	return len(txids)
}

func randB(r *rand.Rand, n int) []byte {
	b := make([]byte, n)
	r.Read(b)
	return b
}

// ---- steps ---------------------------------------------------------------------------------------------------

// arrive delivers a transaction to the node from a source; pump=false leaves it in the channel.
func (w *txWorld) arrive(ti *txInfo, source string, pump bool) {
	w.tracef("arrive %s via %s (relevant=%v, pump=%v)", ti.name, source, ti.relevant, pump)
	mark := len(w.e.log.snapshot())
	ready := w.e.node.state.IsReady()
	inv := wire.NewMsgInv()
	inv.AddInvVect(wire.NewInvVect(wire.InvTypeTx, &ti.id))
	w.guard("arrive "+source, func() {
		switch source {
		case "trusted-inv":
			resp := w.e.handle(inv)
			ti.trustedVouched = ti.trustedVouched || ready
			if len(invHashes(resp, wire.InvTypeTx)) > 0 {
				w.e.handle(ti.tx)
			}
		case "trusted-inv-nobody":
			// announced, requested, but the body never arrives
			w.e.handle(inv)
		case "untrusted-inv-nobody":
			if len(w.untr) > 0 {
				w.untr[0].handle(w.e.ctx, inv)
			}
		case "trusted-bare":
			w.e.handle(ti.tx)
			ti.trustedVouched = ti.trustedVouched || ready
		case "untrusted-inv", "untrusted-bare":
			if len(w.untr) == 0 {
				for i := 0; i < 2; i++ {
					u := w.e.newUntrusted(fmt.Sprintf("10.0.0.%d:8333", i+1))
					u.st.SetVerified()
					w.untr = append(w.untr, u)
				}
			}
			u := w.untr[w.r.Intn(len(w.untr))]
			if source == "untrusted-inv" {
				resp, _ := u.handle(w.e.ctx, inv)
				if len(invHashes(resp, wire.InvTypeTx)) > 0 {
					u.handle(w.e.ctx, ti.tx)
				}
			} else {
				u.handle(w.e.ctx, ti.tx)
			}
		case "local":
			// SendTx without the broadcast part (no connection): what it queues
			w.e.node.HandleTx(w.e.ctx, ti.tx)
			ti.local = true
		}
	})
	if pump {
		w.pumpTxs()
	}
	if strings.HasPrefix(source, "untrusted") {
		// C12: nothing an untrusted connection sends makes the node report a transaction safe
		// (or confirmed): judge the notifications this delivery produced
		for _, ev := range w.e.log.snapshot()[mark:] {
			if ev.TxID != ti.id || ti.local || ti.trustedVouched {
				continue // (what else was waiting in the channel is not this delivery's doing)
			}
			if (ev.Kind == "tx" || ev.Kind == "update") && ev.State.Safe && ev.State.MerkleProof == nil {
				w.find("C12", "C12/untrusted-delivery-caused-safe-report/"+ev.Kind, fmt.Sprintf("%s delivered by an untrusted peer (%s) was reported safe in the course of that delivery (orphaned %d times before)", ti.name, source, ti.orphaned))
			}
			if (ev.Kind == "tx" || ev.Kind == "update") && ev.State.MerkleProof != nil {
				w.find("C12", "C12/untrusted-delivery-caused-confirmation/"+ev.Kind, fmt.Sprintf("a notification with a merkle proof followed the delivery of %s by an untrusted peer", ti.name))
			}
		}
	}
}

// pumpTxs runs the unconfirmed-tx processor over everything queued, recording ground truth.
func (w *txWorld) pumpTxs() {
	for {
		select {
		case td := <-w.e.node.unconfTxChannel.Channel:
			ti := w.byID[*td.Msg.TxHash()]
			ready := w.e.node.state.IsReady()
			var err error
			w.guard("processUnconfirmedTx", func() { err = w.e.node.processUnconfirmedTx(w.e.ctx, td) })
			if err != nil {
				w.find("C03", "C03/process-unconfirmed-error", fmt.Sprintf("processUnconfirmedTx(%s) failed: %v (the real tx processor requests a node stop here)", ti.name, err))
			}
			if ti != nil {
				if ti.processedUnconf == 0 {
					ti.firstSeenReady = ready || td.Safe
				}
				ti.processedUnconf++
			}
		default:
			return
		}
	}
}

// mine extends the peer's chain by a block holding txs and lets the node fetch and process it.
func (w *txWorld) mine(txs []*txInfo, parse bool) *verifkit.Block {
	var ms []*wire.MsgTx
	names := ""
	for _, t := range txs {
		ms = append(ms, t.tx)
		names += t.name + " "
	}
	b := w.tree.Extend(w.tip, ms)
	w.tip = b
	w.tracef("mine block %d with [%s]", b.Height, names)
	w.deliverBlocks([]*verifkit.Block{b}, parse)
	return b
}

// deliverBlocks announces headers, answers the getdata and steps the processor.
func (w *txWorld) deliverBlocks(bs []*verifkit.Block, parse bool) {
	w.guard("headers", func() {
		resp := w.e.handle(headersMsg(bs...))
		want := invHashes(resp, wire.InvTypeBlock)
		for rounds := 0; rounds < 50 && len(want) > 0; rounds++ {
			var next []bitcoin.Hash32
			for _, h := range want {
				if b := w.tree.ByHash[h]; b != nil {
					w.e.handle(blockMsg(b.Msg(), parse))
				}
			}
			for w.stepBlock() {
			}
			next = invHashes(w.e.drain(), wire.InvTypeBlock)
			want = next
		}
	})
}

// stepBlock = one block-processor step with ground-truth bookkeeping.
type midProc struct {
	id    bitcoin.Hash32
	ready bool
	safe  bool
	err   error
}

func (w *txWorld) stepBlock() bool {
	before := w.e.node.blocks.LastHeight()
	ok := false
	if len(w.midBlock) > 0 && w.e.node.state.BlocksRequestedCount() > 0 {
		tis, at := w.midBlock, w.midBlockAt
		w.midBlock = nil
		var count, started int32
		done := make(chan struct{})
		var procs []midProc
		node, ctx := w.e.node, w.e.ctx
		w.e.log.mu.Lock()
		prev := w.e.log.onEvent
		w.e.log.onEvent = func(ev recEvent) {
			if prev != nil {
				prev(ev)
			}
			if ev.Handler != 0 || int(atomic.AddInt32(&count, 1))-1 != at || !atomic.CompareAndSwapInt32(&started, 0, 1) {
				return
			}
			go func() {
				defer close(done)
				for _, ti := range tis {
					node.handleMessage(ctx, ti.tx) // what monitorIncoming does with a tx message
				}
				for {
					select {
					case td := <-node.unconfTxChannel.Channel: // what processUnconfirmedTxs does
						p := midProc{id: *td.Msg.TxHash(), ready: node.state.IsReady(), safe: td.Safe}
						p.err = node.processUnconfirmedTx(ctx, td)
						procs = append(procs, p)
					default:
						return
					}
				}
			}()
			select {
			case <-done:
			case <-time.After(120 * time.Millisecond): // blocked on the block processor's locks: go on
			}
		}
		w.e.log.mu.Unlock()
		w.guard("block processor step", func() { ok = w.e.step() })
		w.e.log.mu.Lock()
		w.e.log.onEvent = prev
		w.e.log.mu.Unlock()
		names := ""
		for _, ti := range tis {
			names += ti.name + " "
		}
		if atomic.LoadInt32(&started) == 1 {
			w.midBlocks++
			select {
			case <-done:
			case <-time.After(20 * time.Second):
				w.find("C03", "C03/mid-block-arrival-never-finished", "a transaction handed to the node while a block was processed is still not processed 20 s after the block")
				return ok
			}
			w.tracef("while that block was processed (callback %d) the bodies of [%s] arrived from the trusted peer", at, names)
			for _, p := range procs {
				ti := w.byID[p.id]
				if p.err != nil {
					w.find("C03", "C03/process-unconfirmed-error", fmt.Sprintf("processUnconfirmedTx failed: %v", p.err))
				}
				if ti != nil {
					if ti.processedUnconf == 0 {
						ti.firstSeenReady = p.ready || p.safe
					}
					ti.processedUnconf++
					ti.trustedVouched = ti.trustedVouched || p.ready
				}
			}
		} else if !ok {
			w.midBlock = tis // no block was processed in this step
		} else {
			// the block had no callback with that index: the bodies arrive right after it
			for _, ti := range tis {
				w.arrive(ti, "trusted-bare", true)
			}
		}
	} else {
		w.guard("block processor step", func() { ok = w.e.step() })
	}
	if !ok {
		return false
	}
	after := w.e.node.blocks.LastHeight()
	if after == before+1 {
		hash, _ := w.e.node.blocks.Hash(w.e.ctx, after)
		if b := w.tree.ByHash[*hash]; b != nil {
			w.blocksProcessed[b.Hash] = true
			for _, tx := range b.Txs[1:] {
				if ti := w.byID[*tx.TxHash()]; ti != nil {
					ti.confirmedAt = append(ti.confirmedAt, after)
				}
			}
		}
	}
	if w.e.procErr != nil {
		w.find("C06", "C06/process-block-error", fmt.Sprintf("ProcessBlock failed: %v (block at height %d)", w.e.procErr, before+1))
		w.e.procErr = nil
	}
	// queued requests for more blocks stay in the outgoing channel for deliverBlocks
	return true
}

// reorg replaces the last depth blocks by a longer branch; the new branch confirms txsPerBlock.
func (w *txWorld) reorg(depth int, newTxs [][]*txInfo, parse bool) {
	if depth > w.tip.Height-w.start {
		depth = w.tip.Height - w.start
	}
	if depth < 1 {
		return
	}
	oldChain := w.tip.Chain()
	base := w.tip.Ancestor(w.tip.Height - depth)
	for h := base.Height + 1; h <= w.tip.Height; h++ {
		for _, tx := range oldChain[h].Txs[1:] {
			if ti := w.byID[*tx.TxHash()]; ti != nil && w.blocksProcessed[oldChain[h].Hash] {
				ti.orphaned++
			}
		}
	}
	nt := base
	var bs []*verifkit.Block
	for i := 0; i < depth+1; i++ {
		var ms []*wire.MsgTx
		if i < len(newTxs) {
			for _, t := range newTxs[i] {
				ms = append(ms, t.tx)
			}
		}
		nt = w.tree.Extend(nt, ms)
		bs = append(bs, nt)
	}
	w.tip = nt
	w.tracef("reorg depth %d -> new tip height %d", depth, nt.Height)
	w.deliverBlocks(bs, parse)
	// after a reorg the node polls for headers again until it is in sync; give it the empty answer
	w.guard("resync", func() {
		for i := 0; i < 6 && !w.e.node.state.IsReady(); i++ {
			w.e.node.check(w.e.ctx)
			for _, m := range w.e.drain() {
				if _, ok := m.(*wire.MsgGetHeaders); ok {
					w.e.handle(wire.NewMsgHeaders())
				}
			}
			for w.stepBlock() {
			}
		}
	})
}

// dropConnection re-issues what Run does between two trusted connections (save, reset the
// volatile state) and starts the next handshake; the node is then catching up (not in sync) until
// finishSync.
func (w *txWorld) dropConnection() {
	w.tracef("trusted connection dropped; reconnecting (node not in sync)")
	n := w.e.node
	n.blocks.Save(w.e.ctx)
	n.txs.Save(w.e.ctx)
	n.peers.Save(w.e.ctx)
	n.state.Reset()
	n.state.MarkConnected()
	w.guard("handshake", func() {
		v := wire.NewMsgVersion(wire.NewNetAddressIPPort([]byte{127, 0, 0, 1}, 1, 0), wire.NewNetAddressIPPort([]byte{127, 0, 0, 1}, 2, 0), 7, int32(w.tip.Height))
		w.e.handle(v)
		n.check(w.e.ctx)
		w.e.drain()
	})
}

// finishSync answers the node's header polls with "nothing new" until it is in sync again.
func (w *txWorld) finishSync() {
	w.tracef("peer answers the header poll: nothing new")
	w.guard("resync", func() {
		for i := 0; i < 8 && !w.e.node.state.IsReady(); i++ {
			w.e.handle(wire.NewMsgHeaders())
			for w.stepBlock() {
			}
			w.e.node.check(w.e.ctx)
			w.e.drain()
		}
	})
	if !w.e.node.state.IsReady() {
		w.find("C01", "C01/dd-resync-failed", "node did not return to in-sync after an empty headers reply")
	}
}

func (w *txWorld) restart() error {
	w.tracef("clean restart")
	w.e.node.blocks.Save(w.e.ctx)
	w.e.node.txs.Save(w.e.ctx)
	w.e.node.peers.Save(w.e.ctx)
	return w.boot(w.e.store)
}

func (w *txWorld) witness() map[string]interface{} {
	var txs []string
	for _, t := range w.txs {
		txs = append(txs, fmt.Sprintf("%s %s relevant=%v(%s) inputs=%d confirmedAt=%v orphaned=%d", t.name, t.id.String()[:8], t.relevant, t.why, len(t.spends), t.confirmedAt, t.orphaned))
	}
	return map[string]interface{}{"trace": w.trace, "txs": txs, "callbacks": w.e.log.strings(0)}
}

// ---- oracles over the recorded callbacks -----------------------------------------------------------------------

// checkC03: completeness, exactly-once, spent outputs.
func (w *txWorld) checkC03(handlers int) {
	evs := w.e.log.snapshot()
	for h := 0; h < handlers; h++ {
		count := map[bitcoin.Hash32]int{}
		for _, ev := range evs {
			if ev.Kind != "tx" || ev.Handler != h {
				continue
			}
			ti := w.byID[ev.TxID]
			if ti == nil {
				continue
			}
			count[ev.TxID]++
			if !ti.relevant {
				w.find("C03", "C03/irrelevant-delivered", fmt.Sprintf("%s matches no subscription but was delivered to handler %d", ti.name, h))
				continue
			}
			// spent outputs, per input
			want := w.uni.Spent(ti.tx)
			if len(ev.Tx.Outputs) != len(want) {
				w.find("C03", "C03/spent-outputs-count", fmt.Sprintf("%s delivered with %d spent outputs for %d inputs", ti.name, len(ev.Tx.Outputs), len(want)))
				continue
			}
			for i := range want {
				if ev.Tx.Outputs[i] == nil || ev.Tx.Outputs[i].Value != want[i].Value || !bytes.Equal(ev.Tx.Outputs[i].LockingScript, want[i].LockingScript) {
					w.find("C03", "C03/spent-output-wrong", fmt.Sprintf("%s input %d: delivered spent output differs from the output it spends", ti.name, i))
					break
				}
			}
		}
		for _, ti := range w.txs {
			if !ti.relevant {
				continue
			}
			c := count[ti.id]
			if c > 1+ti.orphaned {
				shape := "unconfirmed-only"
				if len(ti.confirmedAt) > 0 {
					shape = "confirmed"
				}
				w.find("C03", "C03/delivered-twice/"+shape, fmt.Sprintf("%s delivered as new %d times to handler %d (its confirming block was orphaned %d times)", ti.name, c, h, ti.orphaned))
			}
			must := (ti.processedUnconf > 0 && ti.firstSeenReady) || len(ti.confirmedAt) > 0
			if must && c == 0 {
				shape := "first-seen-unconfirmed"
				if ti.processedUnconf == 0 {
					shape = "first-seen-in-block"
				}
				w.find("C03", "C03/relevant-not-delivered/"+shape+"/"+ti.why, fmt.Sprintf("%s (%s) was seen (unconfirmed x%d, confirmed at %v) but never delivered to handler %d", ti.name, ti.why, ti.processedUnconf, ti.confirmedAt, h))
			}
		}
	}
}

// checkC04: confirmations carry valid proofs.
func (w *txWorld) checkC04(handlers int) {
	evs := w.e.log.snapshot()
	for _, ti := range w.txs {
		if !ti.relevant {
			continue
		}
		for _, height := range ti.confirmedAt {
			hd, err := w.e.node.blocks.Header(w.e.ctx, height)
			if err != nil {
				continue
			}
			b := w.tree.ByHash[*hd.BlockHash()]
			if b == nil {
				continue // that block was reorganised away since
			}
			idx := -1
			for i, tx := range b.Txs {
				if *tx.TxHash() == ti.id {
					idx = i
				}
			}
			if idx < 0 {
				continue
			}
			for h := 0; h < handlers; h++ {
				found := false
				for _, ev := range evs {
					if ev.Seq < w.judgeFrom || ev.Handler != h || ev.TxID != ti.id || (ev.Kind != "tx" && ev.Kind != "update") || ev.State.MerkleProof == nil {
						continue
					}
					mp := ev.State.MerkleProof
					if *mp.BlockHeader.BlockHash() != b.Hash {
						continue
					}
					found = true
					root := verifkit.VerifyMerklePath(ti.id, mp.Index, mp.Path, mp.DuplicatedIndexes)
					if why := verifkit.MerkleProofShape(len(b.Txs), idx, len(mp.Path), mp.DuplicatedIndexes); why != "" {
						w.find("C04", "C04/proof-malformed", fmt.Sprintf("%s at index %d of a %d-tx block: %s (path %d, duplicated layers %v)", ti.name, idx, len(b.Txs), why, len(mp.Path), mp.DuplicatedIndexes))
					}
					if root != hd.MerkleRoot {
						w.find("C04", "C04/proof-does-not-verify", fmt.Sprintf("%s at index %d of a %d-tx block: proof does not hash to the header's merkle root", ti.name, idx, len(b.Txs)))
					}
					if int(mp.Index) != idx {
						w.find("C04", "C04/proof-index-wrong", fmt.Sprintf("%s is at index %d, proof says %d", ti.name, idx, mp.Index))
					}
					if ev.State.UnconfirmedDepth != 0 {
						w.find("C04", "C04/confirmed-with-unconfirmed-depth", fmt.Sprintf("%s confirmation has UnconfirmedDepth=%d", ti.name, ev.State.UnconfirmedDepth))
					}
				}
				if !found {
					w.find("C04", "C04/confirmation-without-proof", fmt.Sprintf("%s confirmed at height %d: no notification with a proof for that block reached handler %d", ti.name, height, h))
				}
			}
		}
	}
}
