//go:build verif

package spynode

import (
	"fmt"
	"math/rand"
	"testing"

	"github.com/tokenized/pkg/bitcoin"
	"github.com/tokenized/pkg/wire"
	"github.com/tokenized/spynode/internal/verifkit"
)

// ---- C05 / C06 (DD): double spends among unconfirmed transactions and against confirmed ones ------------

type dsTruth struct {
	pool       map[*txInfo]bool            // unconfirmed, processed, not confirmed / evicted
	conflicted map[*txInfo]map[*txInfo]bool // tx -> txs it was in conflict with while both were pooled
	cancelDue  map[*txInfo]*verifkit.Block // loser -> block that confirmed a conflicting tx
	cancelSeenWinner map[*txInfo]bool     // the winner had been seen unconfirmed
	order      map[*txInfo]int            // event index when the conflict arose
	justified  map[*txInfo]bool           // a transaction sharing an outpoint had been seen when this one was processed
}

func shares(a, b *txInfo) bool {
	for _, x := range a.spends {
		for _, y := range b.spends {
			if x == y {
				return true
			}
		}
	}
	return false
}

// c05Scenario: conflicts among unconfirmed transactions interleaved with confirmations.
func c05Scenario(r *rand.Rand) (*txWorld, *dsTruth, string, error) {
	w, err := newTxWorld(r, verifkit.NewStore(false), 3, 1)
	if err != nil {
		return nil, nil, "", err
	}
	tr := &dsTruth{pool: map[*txInfo]bool{}, conflicted: map[*txInfo]map[*txInfo]bool{}, cancelDue: map[*txInfo]*verifkit.Block{}, cancelSeenWinner: map[*txInfo]bool{}, order: map[*txInfo]int{}, justified: map[*txInfo]bool{}}
	ops := w.uni.Order[:4]
	// transactions over 4 outpoints: each spends 1-3 of them; several variants per subset
	var pool []*txInfo
	ntx := 3 + r.Intn(6)
	for i := 0; i < ntx; i++ {
		var ins []wire.OutPoint
		for _, k := range r.Perm(4)[:1+r.Intn(3)] {
			ins = append(ins, ops[k])
		}
		kind := []string{"out-push", "out-push", "in-push", "none"}[r.Intn(4)]
		pool = append(pool, w.makeTx(kind, ins))
	}
	fp := ""
	confirmedOuts := map[wire.OutPoint]bool{}
	processed := map[*txInfo]bool{}
	steps := 4 + r.Intn(10)
	catchingUp := false
	for s := 0; s < steps; s++ {
		if k := r.Intn(100); k < 8 && !catchingUp {
			w.dropConnection()
			catchingUp = true
			fp += "D"
			continue
		} else if k < 25 && catchingUp {
			w.finishSync()
			catchingUp = false
			fp += "d"
			continue
		}
		if r.Intn(100) < 70 {
			t := pool[r.Intn(len(pool))]
			spentConfirmed := false
			for _, op := range t.spends {
				if confirmedOuts[op] {
					spentConfirmed = true
				}
			}
			if spentConfirmed || len(t.confirmedAt) > 0 {
				continue // spends of confirmed-spent outputs are C06's subject only via blocks
			}
			src := c03Sources[r.Intn(4)]
			first := !processed[t] && !tr.pool[t]
			w.arrive(t, src, true)
			if t.processedUnconf > 0 && first {
				processed[t] = true
				for u := range tr.pool {
					if u != t && shares(u, t) {
						if tr.conflicted[t] == nil {
							tr.conflicted[t] = map[*txInfo]bool{}
						}
						if tr.conflicted[u] == nil {
							tr.conflicted[u] = map[*txInfo]bool{}
						}
						tr.conflicted[t][u] = true
						tr.conflicted[u][t] = true
						fp += "X"
					}
				}
				tr.pool[t] = true
			}
			fp += "a"
		} else {
			// a block confirms a non-conflicting subset (seen or unseen)
			var in []*txInfo
			for _, t := range pool {
				if len(t.confirmedAt) > 0 || r.Intn(3) > 0 {
					continue
				}
				ok := true
				for _, op := range t.spends {
					if confirmedOuts[op] {
						ok = false
					}
				}
				for _, q := range in {
					if shares(q, t) {
						ok = false
					}
				}
				if ok {
					in = append(in, t)
				}
			}
			// the body of one more transaction (not in this block, not conflicting with it)
			// reaches the node while the block is being processed
			var mid *txInfo
			if r.Intn(3) == 0 && !catchingUp {
				for _, t := range pool {
					if len(t.confirmedAt) > 0 || processed[t] || tr.pool[t] {
						continue
					}
					ok := true
					for _, op := range t.spends {
						if confirmedOuts[op] {
							ok = false
						}
					}
					for _, q := range in {
						if q == t || shares(q, t) {
							ok = false
						}
					}
					if ok {
						mid = t
						break
					}
				}
				if mid != nil {
					w.midBlock = []*txInfo{mid}
					w.midBlockAt = r.Intn(3)
					fp += "M"
				}
			}
			var prePool []*txInfo
			for u := range tr.pool {
				prePool = append(prePool, u)
			}
			b := w.mine(in, r.Intn(2) == 0)
			if mid != nil {
				// it entered the mempool at some point during the block: a conflict with a
				// transaction this block evicts may or may not have been seen
				for _, u := range prePool {
					if shares(u, mid) {
						tr.justified[mid] = true
					}
				}
			}
			if mid != nil && len(w.midBlock) > 0 {
				w.midBlock = nil
				w.arrive(mid, "trusted-bare", true)
			}
			for _, t := range in {
				seen := tr.pool[t]
				delete(tr.pool, t)
				for _, op := range t.spends {
					confirmedOuts[op] = true
				}
				for u := range tr.pool {
					if shares(u, t) {
						tr.justified[t] = true
						tr.cancelDue[u] = b
						tr.cancelSeenWinner[u] = seen
						delete(tr.pool, u)
						fp += "K"
					}
				}
			}
			fp += fmt.Sprintf("B%d", len(in))
			if mid != nil && mid.processedUnconf > 0 {
				// for the ground truth it arrived right after the block
				processed[mid] = true
				for u := range tr.pool {
					if u != mid && shares(u, mid) {
						if tr.conflicted[mid] == nil {
							tr.conflicted[mid] = map[*txInfo]bool{}
						}
						if tr.conflicted[u] == nil {
							tr.conflicted[u] = map[*txInfo]bool{}
						}
						tr.conflicted[mid][u] = true
						tr.conflicted[u][mid] = true
						fp += "X"
					}
				}
				tr.pool[mid] = true
			}
		}
	}
	if catchingUp {
		w.finishSync()
	}
	return w, tr, fp, nil
}

// checkC05 judges the unsafe/safe flags of the unconfirmed notifications.
func (w *txWorld) checkC05(tr *dsTruth) {
	evs := w.e.log.snapshot()
	for _, ti := range w.txs {
		if !ti.relevant {
			continue
		}
		inConflict := len(tr.conflicted[ti]) > 0
		sawUnsafe := false
		for _, ev := range evs {
			if ev.Handler != 0 || ev.TxID != ti.id || (ev.Kind != "tx" && ev.Kind != "update") {
				continue
			}
			if ev.State.UnSafe {
				if !inConflict && tr.cancelDue[ti] == nil && !tr.justified[ti] && !sawUnsafe {
					w.find("C05", "C05/unsafe-without-conflict/"+ev.Kind, fmt.Sprintf("%s reported unsafe although no transaction sharing one of its outpoints was pooled with it", ti.name))
				}
				sawUnsafe = true
			}
			if ev.State.Safe && sawUnsafe {
				w.find("C05", "C05/safe-after-unsafe/"+ev.Kind, fmt.Sprintf("%s reported safe after it had been reported unsafe", ti.name))
			}
			if ev.State.Safe && ev.State.UnSafe {
				w.find("C05", "C05/safe-and-unsafe", fmt.Sprintf("%s notification has safe and unsafe both set", ti.name))
			}
		}
		if inConflict && ti.processedUnconf > 0 && !sawUnsafe {
			role := "second-spender"
			w.find("C05", "C05/conflict-not-flagged/"+role, fmt.Sprintf("%s and %d other pooled transaction(s) spend a common outpoint, but %s was never reported unsafe", ti.name, len(tr.conflicted[ti]), ti.name))
		}
	}
}

// checkC06 judges cancellation of the losers of confirmed double spends.
func (w *txWorld) checkC06(tr *dsTruth) {
	evs := w.e.log.snapshot()
	for loser, blk := range tr.cancelDue {
		if !loser.relevant || loser.processedUnconf == 0 {
			continue
		}
		shape := "winner-unseen"
		if tr.cancelSeenWinner[loser] {
			shape = "winner-seen"
		}
		// position of the block's HandleHeaders
		at := -1
		for _, ev := range evs {
			if ev.Handler == 0 && ev.Kind == "headers" && *ev.Header.BlockHash() == blk.Hash {
				at = ev.Seq
			}
		}
		if at < 0 {
			w.find("C06", "C06/confirming-block-not-announced/"+shape, fmt.Sprintf("block %d confirming the double spend was not announced", blk.Height))
			continue
		}
		got := false
		for _, ev := range evs {
			if ev.Handler == 0 && ev.Kind == "update" && ev.TxID == loser.id && ev.Seq > at && ev.State.Cancelled {
				got = true
				if !ev.State.UnSafe {
					w.find("C06", "C06/cancelled-without-unsafe/"+shape, fmt.Sprintf("%s cancelled but not unsafe", loser.name))
				}
			}
		}
		if !got {
			w.find("C06", "C06/loser-not-cancelled/"+shape, fmt.Sprintf("%s (delivered, unconfirmed) conflicts with a transaction confirmed in block %d, but no cancelled+unsafe update followed", loser.name, blk.Height))
		}
		if w.e.node.memPool.TransactionExists(&loser.id) {
			w.find("C06", "C06/loser-still-tracked/"+shape, fmt.Sprintf("%s is still in double-spend tracking after its conflict was confirmed", loser.name))
		} else {
			// dropped means dropped from the outpoint index too (all of its outpoints, not only
			// the contested one): a later spender of one of them has no conflict
			for _, spenders := range w.e.node.memPool.VerifSnapshot().Inputs {
				for _, sp := range spenders {
					if sp == loser.id {
						w.find("C06", "C06/loser-still-indexed/"+shape, fmt.Sprintf("%s is gone from double-spend tracking but still listed as the spender of an outpoint (%d inputs)", loser.name, len(loser.spends)))
					}
				}
			}
		}
	}
	// no cancel for transactions that do not conflict with a confirmed one
	for _, ev := range evs {
		if ev.Handler == 0 && ev.Kind == "update" && ev.State.Cancelled {
			ti := w.byID[ev.TxID]
			if ti == nil || tr.cancelDue[ti] == nil {
				name := "?"
				if ti != nil {
					name = ti.name
				}
				w.find("C06", "C06/cancel-for-non-conflicting", fmt.Sprintf("cancelled update for %s (%s), which conflicts with no confirmed transaction", name, ev.TxID.String()[:8]))
			}
		}
	}
}

func runDoubleSpend(t *testing.T, prop string, rep *verifkit.Report, n int) {
	for ci := 0; ci < n; ci++ {
		if !verifkit.Mine(ci) {
			continue
		}
		ci := ci
		verifkit.RunCase(rep, ci, func() {
			r := verifkit.Rand("doublespend", ci)
			w, tr, fp, err := c05Scenario(r)
			if err != nil {
				rep.Inconc(ci, err.Error())
				return
			}
			w.checkC05(tr)
			w.checkC06(tr)
			w.checkC04(2)
			for _, f := range w.finds {
				if f.prop != prop {
					rep.Event("other_property_findings:"+f.sig, 1)
					continue
				}
				rep.Finding(ci, f.sig, f.detail, w.witness())
			}
			conf, canc := 0, len(tr.cancelDue)
			for _, m := range tr.conflicted {
				conf += len(m)
			}
			rep.Event("histories", 1)
			rep.Event("conflict_pairs", int64(conf/2))
			rep.Event("confirmed_double_spends", int64(canc))
			nt := conf > 0
			if prop == "C06" {
				nt = canc > 0
			}
			rep.Case(fp, nt)
			if rep.WantSample() && nt {
				rep.Sample(w.witness())
			}
		})
	}
}

func TestVerif_C05Node(t *testing.T) {
	rep := verifkit.NewReport("C05")
	defer rep.Write()
	runDoubleSpend(t, "C05", rep, verifkit.N(2500, 80000))
	c05Known(rep, verifkit.N(400, 20000))
}

// c05Known: the conflict reaches a transaction the node already has a stored state for - it was
// confirmed in a block that has been orphaned since - and the
// transaction is announced again after its double spend has been seen.  "In either order, whatever
// ...": both are seen unconfirmed, so each relevant one is reported unsafe and never safe afterwards.
func c05Known(rep *verifkit.Report, n int) {
	for ci := 0; ci < n; ci++ {
		if !verifkit.Mine(ci) {
			continue
		}
		ci := ci
		verifkit.RunCase(rep, ci, func() {
			r := verifkit.Rand("C05/known", ci)
			w, err := newTxWorld(r, verifkit.NewStore(false), 4, 1)
			if err != nil {
				rep.Inconc(ci, err.Error())
				return
			}
			op := w.uni.Order[0]
			extra := w.uni.Order[1]
			x := w.makeTx([]string{"out-push", "in-push"}[r.Intn(2)], []wire.OutPoint{op})
			yIns := []wire.OutPoint{op}
			if r.Intn(2) == 0 {
				yIns = append(yIns, extra)
			}
			y := w.makeTx([]string{"out-push", "none"}[r.Intn(2)], yIns)
			// (a third way, a clean restart - the mempool is empty afterwards and the old
			// transaction is only noticed when it is announced again - is outside this
			// property's quantifier and is not judged: see DESIGN §8)
			how := []string{"orphaned", "orphaned-unseen"}[r.Intn(2)]
			switch how {
			case "orphaned":
				w.arrive(x, c03Sources[r.Intn(4)], true)
				w.mine([]*txInfo{x}, r.Intn(2) == 0)
				w.reorg(1, nil, r.Intn(2) == 0)
			case "orphaned-unseen":
				w.mine([]*txInfo{x}, r.Intn(2) == 0) // first seen in the block
				w.reorg(1, nil, r.Intn(2) == 0)
			case "restart":
				w.arrive(x, c03Sources[r.Intn(4)], true)
				if err := w.restart(); err != nil {
					rep.Inconc(ci, err.Error())
					return
				}
			}
			mark := len(w.e.log.snapshot())
			w.arrive(y, c03Sources[r.Intn(4)], true)
			w.arrive(x, c03Sources[r.Intn(4)], true)
			w.checkerStep()
			// judge x (relevant): after the mark an unsafe report, and no safe one at any time later
			sawUnsafe, safeAfter := false, false
			for _, ev := range w.e.log.snapshot()[mark:] {
				if ev.Handler != 0 || ev.TxID != x.id || (ev.Kind != "tx" && ev.Kind != "update") {
					continue
				}
				if ev.State.UnSafe {
					sawUnsafe = true
				}
				if ev.State.Safe && ev.State.MerkleProof == nil {
					safeAfter = true
				}
			}
			inPool := w.e.node.memPool.TransactionExists(&x.id) && w.e.node.memPool.TransactionExists(&y.id)
			if inPool && !sawUnsafe {
				rep.Finding(ci, "C05/known-tx/conflict-not-flagged/"+how, fmt.Sprintf("%s (stored state from before: %s) was announced again after its double spend %s had been seen; both are unconfirmed, but %s was not reported unsafe", x.name, how, y.name, x.name), w.witness())
			}
			if inPool && safeAfter {
				rep.Finding(ci, "C05/known-tx/safe-despite-conflict/"+how, fmt.Sprintf("%s reported safe while its double spend %s is known", x.name, y.name), w.witness())
			}
			rep.Event("known_tx_conflicts_judged:"+how, 1)
			rep.Case("known/"+how+fmt.Sprint(len(yIns)), inPool)
		})
	}
}

func TestVerif_C06(t *testing.T) {
	rep := verifkit.NewReport("C06")
	rep.Rule = "DD: 3-8 generated transactions over 4 outpoints (each spending 1-3 of them, relevant or not) arrive from generated sources in generated orders, interleaved with blocks that confirm non-conflicting subsets (seen or unseen); ground truth = which unconfirmed delivered transactions lose an outpoint to a confirmed one; the recorded callbacks must hold a cancelled+unsafe update for each relevant loser after the block's HandleHeaders, none for others, the loser must leave double-spend tracking and the block must be processed (proof check of C04). Non-trivial = history contains a confirmed double spend; distinct by step-shape string"
	rep.Assumptions = []string{"the harness re-issues the block-processor loop body and the tx-processor body", "node is in sync (mempool maintenance in ProcessBlock only runs then)"}
	defer rep.Write()
	runDoubleSpend(t, "C06", rep, verifkit.N(2500, 120000))
}

var _ = bitcoin.Hash32{}
