//go:build verif

package spynode

import (
	"encoding/hex"
	"fmt"
	"math/rand"
	"testing"

	"github.com/tokenized/pkg/bitcoin"
	"github.com/tokenized/pkg/wire"
	"github.com/tokenized/specification/dist/golang/actions"
	"github.com/tokenized/specification/dist/golang/protocol"
	"github.com/tokenized/spynode/internal/platform/config"
	"github.com/tokenized/spynode/internal/verifkit"
)

// ---- C08: subscription filter vs an independent script walker ----------------------------------------

// c08Pushes is the harness' own walker: complete data pushes of a script, stopping at the first
// push that runs past the end.  OP_0 and empty PUSHDATA are empty pushes; OP_1..16/OP_1NEGATE carry
// implied data that the workload never subscribes to and are skipped.
func c08Pushes(s []byte) [][]byte {
	var out [][]byte
	i := 0
	for i < len(s) {
		op := s[i]
		i++
		n := -1
		switch {
		case op <= 75:
			n = int(op)
		case op == 0x4c:
			if i+1 > len(s) {
				return out
			}
			n = int(s[i])
			i++
		case op == 0x4d:
			if i+2 > len(s) {
				return out
			}
			n = int(s[i]) | int(s[i+1])<<8
			i += 2
		case op == 0x4e:
			if i+4 > len(s) {
				return out
			}
			n = int(s[i]) | int(s[i+1])<<8 | int(s[i+2])<<16 | int(s[i+3])<<24
			i += 4
		default:
			continue // non-push opcode
		}
		if n < 0 || i+n > len(s) {
			return out
		}
		out = append(out, s[i:i+n])
		i += n
	}
	return out
}

func c08Key(p []byte) bitcoin.Hash20 {
	var h bitcoin.Hash20
	if len(p) == 20 {
		copy(h[:], p)
	} else {
		copy(h[:], bitcoin.Hash160(p))
	}
	return h
}

type c08Item struct {
	data []byte
}

func c08Universe(r *rand.Rand) []c08Item {
	lens := []int{20, 20, 33, 33, 5, 65, 80, 300}
	var out []c08Item
	for _, l := range lens {
		b := make([]byte, l)
		r.Read(b)
		out = append(out, c08Item{data: b})
	}
	return out
}

// genScript builds a script from grammar pieces; planted pushes come from the universe.
func c08GenScript(r *rand.Rand, uni []c08Item) []byte {
	var s []byte
	pieces := r.Intn(6)
	for p := 0; p < pieces; p++ {
		switch k := r.Intn(100); {
		case k < 30: // planted: an item, its hash, or one byte off
			it := uni[r.Intn(len(uni))]
			d := append([]byte(nil), it.data...)
			switch r.Intn(4) {
			case 0:
				if len(d) != 20 {
					d = bitcoin.Hash160(d)
				}
			case 1:
				d[r.Intn(len(d))] ^= 1 << uint(r.Intn(8))
			}
			s = append(s, c08Push(r, d)...)
		case k < 50: // random push
			n := []int{0, 1, 19, 20, 21, 32, 33, 75, 76, 255, 256, 600}[r.Intn(12)]
			d := make([]byte, n)
			r.Read(d)
			s = append(s, c08Push(r, d)...)
		case k < 85: // non-push opcodes (incl. OP_1..16, OP_RETURN, OP_DUP ...)
			for j := 0; j < 1+r.Intn(3); j++ {
				s = append(s, byte(0x4f+r.Intn(0xb1)))
			}
		case k < 93: // truncated tail: declared length >> remaining
			switch r.Intn(4) {
			case 0:
				s = append(s, byte(1+r.Intn(75)))
				s = append(s, make([]byte, r.Intn(3))...)
			case 1:
				s = append(s, 0x4c)
				if r.Intn(2) == 0 {
					s = append(s, 200, 1, 2)
				}
			case 2:
				s = append(s, 0x4d, byte(r.Intn(256)))
				if r.Intn(2) == 0 {
					s = append(s, 0xff, 1)
				}
			case 3:
				s = append(s, 0x4e, 0xff, 0xff, 0xff)
				if r.Intn(2) == 0 {
					s = append(s, 0x7f, 9)
				}
			}
			return s
		default:
			s = append(s, 0)
		}
	}
	return s
}

func c08Push(r *rand.Rand, d []byte) []byte {
	n := len(d)
	form := r.Intn(4)
	switch {
	case n <= 75 && form == 0:
		return append([]byte{byte(n)}, d...)
	case n <= 255 && form <= 1:
		return append([]byte{0x4c, byte(n)}, d...)
	case n <= 65535 && form <= 2:
		return append([]byte{0x4d, byte(n), byte(n >> 8)}, d...)
	}
	return append([]byte{0x4e, byte(n), byte(n >> 8), byte(n >> 16), byte(n >> 24)}, d...)
}

var c08ActionCodes = []string{"C1", "C2", "C3", "C4", "C5", "C6", "C7", "C8", "I1", "I2", "I3", "T1", "T2", "T3",
	"G1", "G2", "G3", "G4", "G5", "E1", "E2", "E3", "E4", "E5", "R1", "R2", "R3", "R4", "M1", "M2"}

func c08ActionScripts() (map[string][]byte, error) {
	out := map[string][]byte{}
	for _, c := range c08ActionCodes {
		a := actions.NewActionFromCode(c)
		if a == nil {
			continue
		}
		s, err := protocol.Serialize(a, true)
		if err != nil {
			return nil, fmt.Errorf("serialize %s: %v", c, err)
		}
		out[c] = s
	}
	return out, nil
}

func TestVerif_C08(t *testing.T) {
	rep := verifkit.NewReport("C08")
	rep.Rule = "each case: a fresh Node, a random sequence of subscribe/unsubscribe (raw data or 20-byte hash, duplicates) and contract on/off over 8 data items, and after every step 10 generated transactions (scripts from direct/PUSHDATA1/2/4 pushes, non-push opcodes, truncated tails, planted matching / hashing-to / one-bit-off pushes in any input or output, Tokenized action outputs of every action code, truncated/mutated envelopes) judged by the harness' own script walker and multiset model. Non-trivial = the tx has a planted push, a truncated script or an action output; distinct by (relevant?, reason, position class, script shape)"
	rep.Assumptions = []string{"a 20-byte push whose hash160 (not itself) is subscribed is never generated (ambiguous in the statement)", "implied data of OP_1..OP_16/OP_1NEGATE is never subscribed", "actions are serialised with the node's own test/production protocol id"}
	defer rep.Write()

	actScripts, err := c08ActionScripts()
	if err != nil {
		rep.Inconc(-1, err.Error())
		return
	}
	child := verifkit.NewChild("c08-contracts")
	defer child.Close()
	n := verifkit.N(1500, 150000)
	for ci := 0; ci < n; ci++ {
		if !verifkit.Mine(ci) {
			continue
		}
		r := verifkit.Rand("C08", ci)
		uni := c08Universe(r)
		node := NewNode(config.Config{Net: bitcoin.MainNet, IsTest: true}, verifkit.NewStore(false), nil, nil)
		model := map[bitcoin.Hash20]int{}
		contracts := false
		var hist []string
		for step := 0; step < 12; step++ {
			// one subscription operation (a call carries 1..3 values, raw or as 20-byte hash)
			var forms [][]byte
			names := ""
			for j := 0; j < 1+r.Intn(3); j++ {
				it := uni[r.Intn(len(uni))]
				form := it.data
				if len(form) != 20 && r.Intn(2) == 0 {
					form = bitcoin.Hash160(form)
				}
				forms = append(forms, form)
				names += hex.EncodeToString(form)[:8] + "+"
			}
			switch k := r.Intn(10); {
			case k < 5:
				node.SubscribePushDatas(quietCtx, forms)
				for _, form := range forms {
					model[c08Key(form)]++
				}
				hist = append(hist, "sub:"+names)
			case k < 8:
				node.UnsubscribePushDatas(quietCtx, forms)
				for _, form := range forms {
					if model[c08Key(form)] > 0 {
						model[c08Key(form)]--
					}
				}
				hist = append(hist, "unsub:"+names)
			case k < 9:
				node.SubscribeContracts(quietCtx)
				contracts = true
				hist = append(hist, "contracts:on")
			default:
				node.UnsubscribeContracts(quietCtx)
				contracts = false
				hist = append(hist, "contracts:off")
			}
			rep.Event("subscription_ops", 1)
			for q := 0; q < 10; q++ {
				tx := wire.NewMsgTx(1)
				nin, nout := 1+r.Intn(3), 1+r.Intn(3)
				for i := 0; i < nin; i++ {
					var h bitcoin.Hash32
					r.Read(h[:])
					tx.AddTxIn(wire.NewTxIn(&wire.OutPoint{Hash: h, Index: uint32(i)}, c08GenScript(r, uni)))
				}
				actionKind := ""
				anyMutated := false
				for i := 0; i < nout; i++ {
					ls := c08GenScript(r, uni)
					if r.Intn(6) == 0 {
						code := c08ActionCodes[r.Intn(len(c08ActionCodes))]
						if s, ok := actScripts[code]; ok {
							ls = append([]byte(nil), s...)
							actionKind = code
							switch r.Intn(5) {
							case 0: // truncated envelope
								ls = ls[:r.Intn(len(ls))]
								actionKind = code + "-truncated"
								anyMutated = true
							case 1: // mutated envelope byte
								ls[r.Intn(len(ls))] ^= 0x55
								actionKind = code + "-mutated"
								anyMutated = true
							}
						}
					}
					tx.AddTxOut(wire.NewTxOut(uint64(i), ls))
				}
				// oracle
				want := false
				reason := "none"
				pos := ""
				check := func(scr []byte, where string) {
					for _, p := range c08Pushes(scr) {
						if model[c08Key(p)] > 0 {
							want = true
							if len(p) == 20 {
								reason = "equals"
							} else {
								reason = "hashes-to"
							}
							pos = where
						}
					}
				}
				for _, o := range tx.TxOut {
					check(o.LockingScript, "output")
				}
				for _, in := range tx.TxIn {
					check(in.UnlockingScript, "input")
				}
				contractHit := false
				for _, o := range tx.TxOut {
					// exact, unmodified action scripts only decide; mutated/truncated ones are
					// decided by the library's own parse (an envelope that still parses as
					// C2/I2 is one)
					for code, s := range actScripts {
						if string(o.LockingScript) == string(s) && (code == "C2" || code == "I2") {
							contractHit = true
						}
					}
				}
				ambiguous := false
				if anyMutated {
					// mutated / truncated envelope: relevant only if it still is a C2/I2 action;
					// this cannot be decided without the library, so only "must not match when
					// contracts are off and no push matches" is judged
					ambiguous = contracts
				}
				if contracts && contractHit {
					want = true
					reason = "contract-action"
					pos = "output"
				}
				var got bool
				var pan interface{}
				if contracts && anyMutated {
					// a mutated / truncated envelope can make the action parser die with a
					// process-fatal error: try it in a probe child first
					rep.Event("envelopes_probed_in_child", 1)
					ans, crash, err := child.Probe(txBytes(tx))
					if err != nil {
						rep.Inconc(ci, "probe child: "+err.Error())
						continue
					}
					if crash != nil && (crash.Kind == "infrastructure" || crash.Kind == "exit" || crash.Kind == "timeout") {
						rep.Inconc(ci, "probe child failed: "+crash.Kind+" "+crash.Fatal)
						continue
					}
					if crash != nil {
						rep.Finding(ci, "C08/fatal/"+crash.Kind+"/"+crash.Frame, fmt.Sprintf("IsRelevant killed the process on a mutated/truncated action envelope (%s): %s", actionKind, crash.Fatal), map[string]interface{}{"tx": hex.EncodeToString(txBytes(tx)), "crash": crash})
						continue
					}
					if len(ans) > 5 && ans[:5] == "PANIC" {
						rep.Finding(ci, "C08/panic", "IsRelevant panicked in the probe child: "+ans, map[string]interface{}{"tx": hex.EncodeToString(txBytes(tx))})
						continue
					}
					// the child survived (possibly after a large allocation): its verdict on the
					// contract part is not judged (ambiguous envelope), nothing more to do
					rep.Event("ambiguous_envelopes_skipped", 1)
					continue
				}
				func() {
					defer func() { pan = recover() }()
					got = node.IsRelevant(quietCtx, tx)
				}()
				shape := fmt.Sprintf("%v/%s/%s/%s", want, reason, pos, actionKind)
				rep.Case(shape+fmt.Sprint(len(tx.TxIn), len(tx.TxOut), step), reason != "none" || actionKind != "")
				rep.Event("txs_judged", 1)
				if want {
					rep.Event("txs_relevant:"+reason, 1)
				}
				witness := map[string]interface{}{"subscriptions": hist, "contracts": contracts, "tx": hex.EncodeToString(txBytes(tx))}
				if pan != nil {
					rep.Finding(ci, "C08/panic", fmt.Sprintf("IsRelevant panicked: %v", pan), witness)
					continue
				}
				if ambiguous && got != want {
					rep.Event("ambiguous_envelopes_skipped", 1)
					continue
				}
				if got != want {
					sig := "C08/missed/" + reason + "/" + pos
					if got {
						sig = "C08/false-match"
						if actionKind != "" {
							sig += "/action-" + actionKind[:2]
						}
					}
					rep.Finding(ci, sig, fmt.Sprintf("IsRelevant=%v, walker+model say %v (%s); subs=%v", got, want, reason, hist), witness)
				}
				if rep.WantSample() && want {
					rep.Sample(map[string]interface{}{"case": ci, "subscriptions": hist, "tx": hex.EncodeToString(txBytes(tx)), "relevant": want, "reason": reason})
				}
			}
		}
	}
}
