//go:build verif

// Package verifkit is the shared runtime-monitoring kit for the /verif harness.  It is injected
// into the module through `go test -overlay` as internal/verifkit and must not import any package
// of the spynode module itself (in-package monitors of every package import it).
package verifkit

import (
	"crypto/sha256"
	"encoding/hex"
	"encoding/json"
	"fmt"
	"math/rand"
	"os"
	"sort"
	"strconv"
	"strings"
	"sync"
	"time"
)

// Finding is one violation observed by a monitor.
type Finding struct {
	Signature string      `json:"signature"` // stable: rule + shape of the case, no seeds/hashes
	Detail    string      `json:"detail"`
	Case      int         `json:"case"`
	Witness   interface{} `json:"witness,omitempty"`
}

// Report collects what a monitor observed in one process (one shard).
type Report struct {
	Property     string           `json:"property"`
	Seed         int64            `json:"seed"`
	Tier         string           `json:"tier"`
	Shard        int              `json:"shard"`
	Shards       int              `json:"shards"`
	Evaluations  int              `json:"evaluations"`
	Fingerprints []string         `json:"fingerprints"` // distinct non-trivial case fingerprints
	Trivial      int              `json:"trivial"`
	Events       map[string]int64 `json:"events"`
	Samples      []interface{}    `json:"samples"`
	Findings     []Finding        `json:"findings"`
	Inconclusive []string         `json:"inconclusive"`
	Notes        []string         `json:"notes"`
	Exhaustive   bool             `json:"exhaustive"`
	Rule         string           `json:"rule"`
	Assumptions  []string         `json:"assumptions"`
	WallS        float64          `json:"wall_s"`

	mu       sync.Mutex
	fpSet    map[string]bool
	sigCount map[string]int
	start    time.Time
}

const maxFindingsPerSignature = 3

func NewReport(property string) *Report {
	sh, n := Shard()
	return &Report{
		Property: property, Seed: Seed(), Tier: Tier(), Shard: sh, Shards: n,
		Events: map[string]int64{}, fpSet: map[string]bool{}, sigCount: map[string]int{},
		start: time.Now(),
	}
}

// Case records one evaluated case.  fingerprint abstracts what the case exercised; nontrivial says
// whether it left the happy path by the monitor's stated rule.
func (r *Report) Case(fingerprint string, nontrivial bool) {
	r.mu.Lock()
	defer r.mu.Unlock()
	r.Evaluations++
	if !nontrivial {
		r.Trivial++
		return
	}
	h := sha256.Sum256([]byte(fingerprint))
	k := hex.EncodeToString(h[:8])
	if !r.fpSet[k] {
		r.fpSet[k] = true
	}
}

func (r *Report) Event(kind string, n int64) {
	r.mu.Lock()
	r.Events[kind] += n
	r.mu.Unlock()
}

// Sample keeps the first few written-out cases.
func (r *Report) Sample(v interface{}) {
	r.mu.Lock()
	if len(r.Samples) < 3 {
		r.Samples = append(r.Samples, v)
	}
	r.mu.Unlock()
}

func (r *Report) WantSample() bool {
	r.mu.Lock()
	defer r.mu.Unlock()
	return len(r.Samples) < 3
}

func (r *Report) Finding(caseIdx int, signature, detail string, witness interface{}) {
	r.mu.Lock()
	defer r.mu.Unlock()
	r.sigCount[signature]++
	if r.sigCount[signature] > maxFindingsPerSignature {
		return
	}
	r.Findings = append(r.Findings, Finding{Signature: signature, Detail: detail, Case: caseIdx,
		Witness: witness})
}

func (r *Report) HasFindings() bool {
	r.mu.Lock()
	defer r.mu.Unlock()
	return len(r.Findings) > 0
}

// Inconc records an inconclusive case (caseIdx >= 0: the driver re-runs it once on its own).
func (r *Report) Inconc(caseIdx int, what string) {
	r.mu.Lock()
	if len(r.Inconclusive) < 50 {
		if caseIdx >= 0 {
			what = fmt.Sprintf("case:%d:%s", caseIdx, what)
		}
		r.Inconclusive = append(r.Inconclusive, what)
	}
	r.mu.Unlock()
}

func (r *Report) Note(format string, args ...interface{}) {
	r.mu.Lock()
	if len(r.Notes) < 50 {
		r.Notes = append(r.Notes, fmt.Sprintf(format, args...))
	}
	r.mu.Unlock()
}

// Write stores the report where the driver expects it (VERIF_OUT) or prints it.
func (r *Report) Write() error {
	r.mu.Lock()
	defer r.mu.Unlock()
	r.Fingerprints = r.Fingerprints[:0]
	for k := range r.fpSet {
		r.Fingerprints = append(r.Fingerprints, k)
	}
	sort.Strings(r.Fingerprints)
	for sig, n := range r.sigCount {
		r.Events["finding:"+sig] = int64(n)
	}
	r.WallS = time.Since(r.start).Seconds()
	b, err := json.Marshal(r)
	if err != nil {
		// A witness that cannot be marshalled must not hide the finding.
		for i := range r.Findings {
			r.Findings[i].Witness = fmt.Sprintf("%+v", r.Findings[i].Witness)
		}
		r.Samples = nil
		b, err = json.Marshal(r)
		if err != nil {
			return err
		}
	}
	out := os.Getenv("VERIF_OUT")
	if out == "" {
		fmt.Printf("VERIF-REPORT %s\n", string(b))
		return nil
	}
	return os.WriteFile(out, b, 0o644)
}

// ---- environment ---------------------------------------------------------------------------------

func Seed() int64 {
	if s := os.Getenv("VERIF_SEED"); s != "" {
		if v, err := strconv.ParseInt(s, 10, 64); err == nil {
			return v
		}
	}
	return 1
}

func Tier() string {
	if t := os.Getenv("VERIF_TIER"); t == "thorough" {
		return "thorough"
	}
	return "quick"
}

func Thorough() bool { return Tier() == "thorough" }

// Shard returns (index, count) from VERIF_SHARD="i/n".
func Shard() (int, int) {
	s := os.Getenv("VERIF_SHARD")
	parts := strings.Split(s, "/")
	if len(parts) == 2 {
		i, e1 := strconv.Atoi(parts[0])
		n, e2 := strconv.Atoi(parts[1])
		if e1 == nil && e2 == nil && n > 0 && i >= 0 && i < n {
			return i, n
		}
	}
	return 0, 1
}

// OnlyCase returns the single case index to run (replay), or -1.
func OnlyCase() int {
	if s := os.Getenv("VERIF_CASE"); s != "" {
		if v, err := strconv.Atoi(s); err == nil {
			return v
		}
	}
	return -1
}

// Mine says whether case i belongs to this process.
func Mine(i int) bool {
	if c := OnlyCase(); c >= 0 {
		return i == c
	}
	sh, n := Shard()
	return i%n == sh
}

// Rand returns the PRNG of case i of a family: determined by (seed, family, i) only.
func Rand(family string, i int) *rand.Rand {
	h := sha256.Sum256([]byte(fmt.Sprintf("%d|%s|%d", Seed(), family, i)))
	var s int64
	for k := 0; k < 8; k++ {
		s = s<<8 | int64(h[k])
	}
	return rand.New(rand.NewSource(s))
}

// N picks the case count for the tier.
func N(quick, thorough int) int {
	if Thorough() {
		return thorough
	}
	return quick
}
