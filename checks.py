# Per-property configuration of the monitors (read by vcheck and by tools/gen_manifest.py).
# runs: list of monitor runs merged into one verdict
#   pkg    package (relative to /repo) whose in-package monitor binary is built
#   test   Go test function that is the monitor
#   race   build and run under the race detector
#   shards {tier: n}     processes the case list is split over
# race_attrib  regexes of mechanism functions: a race report is charged to the property only if
#              both accesses are inside these
META = {
    "pending_reason": "not claimed yet: the monitor for this property is still being built (see DESIGN.md Appendix C); the technique applies",
    "hook_commits": [],
    "notes": "All checks are runtime monitors over executions of the real code built from /repo's working tree (go test -overlay, tag verif). Verdicts: exit 0 held on what was observed, exit 1 VIOLATION, exit 2 broken/inconclusive run. Known findings: known_findings.json.",
    "engines": [
        {"name": "vcheck", "path": "/verif/vcheck", "serves_properties": [], "kind_free_text": "python driver: overlay build of /repo + harness, sharded runs, merge of observations, known-findings matching, evidence"},
        {"name": "verifkit", "path": "/verif/harness/verifkit", "serves_properties": [], "kind_free_text": "Go monitoring kit: report, recording/faulting storage, block/tx generators, scripted peer"},
    ],
}

CHECKS = {
    "C13": {
        "level": "exploration",
        "technique": "runtime monitoring: lock-step shadow-model monitor over bounded-exhaustive and random operation sequences + porcupine linearizability check of recorded concurrent histories under the Go race detector",
        "level_text": "Every operation sequence up to depth 5 (thorough 6) over a 24-operation alphabet and thousands of random length-80 sequences are executed on the real state.State request queue; after every step the monitor compares the queue with a shadow of the observable history (outstanding set, order, body presence, byte counter, window). Concurrent histories of the four real callers are recorded at the API boundary and checked for linearizability; the race detector watches the same runs. Exploration is the right level: the state space (hash trees x sizes x sequences) is unbounded, the sampled part is dense around the window/byte limits and fork clears.",
        "level_note": "Trusted: fake wire.Block objects (size as claimed), overlay accessor reading unexported queue fields under State.lock, porcupine. The byte limit is only probed clearly below/above 100 MB; request-now vs queued is not compared.",
        "runs": [
            {"pkg": "internal/state", "test": "TestVerif_C13"},
            {"pkg": "internal/state", "test": "TestVerif_C13Conc", "race": True},
        ],
        "race_attrib": [r"state\.\(\*State\)\."],
    },
    "C09": {
        "level": "exploration",
        "technique": "runtime monitoring: reference-model monitor (Go slice) in lock-step with the real block repository over generated operation lists, every query probed after every operation",
        "level_text": "Generated operation lists over {add k, revert t, save, save+reload} with heights concentrated at the 1000-header file boundaries run against the real BlockRepository on a recording in-memory store (both delete-missing behaviours); after every operation ~80 query answers are compared with a Go slice, panics are caught, and a failing revert must leave every answer unchanged. The node's header-range query is checked the same way. Exploration: the sequence space is unbounded; sampling is dense where the code has special cases (file roll-over, unsaved newest file, cross-file revert).",
        "level_note": "Trusted: verifkit.Store as the storage back end, the list model. Hash(-1)/Time(-1) may answer error, empty or the tip (only Header documents -1).",
        "runs": [
            {"pkg": "internal/storage", "test": "TestVerif_C09"},
            {"pkg": "internal/spynode", "test": "TestVerif_C09Node", "shards": {"quick": 4, "thorough": 4}},
        ],
    },
    "C05": {
        "level": "exploration",
        "technique": "runtime monitoring: reference-model monitor of the mempool outpoint index in lock-step (bounded-exhaustive + random), plus callback-history checker over direct-drive node histories",
        "level_text": "TODO",
        "level_note": "TODO",
        "unclaimed": "not claimed yet: node-level part of the monitor still being built",
        "runs": [
            {"pkg": "internal/state", "test": "TestVerif_C05"},
        ],
    },
    "C14": {
        "level": "exploration",
        "technique": "runtime monitoring: online trace checker over emitted getdata(tx) events under a virtual clock (aged request times) + porcupine linearizability check per txid of concurrent AddRequest histories under the race detector",
        "level_text": "Thousands of generated interleavings of inventory announcements from one trusted and three untrusted connections, body arrivals, silent peers, confirmations and periodic tracker checks are run through the real inv handlers, MemPool.AddRequest and TxTracker.Check; every getdata(tx) the code emits is judged against a virtual clock (no second request inside the window, none after the body, a waiting announcer asks at its next check once the window passed, nothing after confirmation). Four goroutines announcing overlapping sets in one epoch give concurrent histories checked with porcupine and the race detector. Exploration: interleavings are unbounded; the generator is dense around the window boundary.",
        "level_note": "Trusted: ageing accessor (MemPool.VerifAge) as virtual time, 0.1 s margin around the 3 s window, the harness re-issues the two calls processUnconfirmedTx makes on body arrival and the two calls block processing makes on confirmation.",
        "runs": [
            {"pkg": "internal/handlers", "test": "TestVerif_C14"},
            {"pkg": "internal/handlers", "test": "TestVerif_C14Conc", "race": True},
        ],
        "race_attrib": [r"state\.\(\*MemPool\)\.", r"state\.\(\*TxTracker\)\."],
    },
    "C08": {
        "level": "exploration",
        "technique": "runtime monitoring: differential monitor of Node.IsRelevant against an independent script walker and a multiset subscription model over grammar-generated transactions",
        "level_text": "Each case drives a fresh node through a random subscribe/unsubscribe/contract sequence and judges ten grammar-generated transactions after every step: the harness' own 40-line script walker lists the complete pushes, a multiset model holds the subscriptions, and Tokenized action outputs of every action code (plus truncated and mutated envelopes) are planted. Disagreement in either direction or a panic is a violation. Exploration: the input space is unbounded; the grammar plants matching, hashing-to and one-bit-off pushes in every position and truncates scripts at every kind of push.",
        "level_note": "Trusted: bitcoin.Hash160, protocol.Serialize for building action outputs. Not judged (ambiguous in the statement): 20-byte pushes whose hash160 is subscribed, implied data of OP_1..16, mutated envelopes while contract subscription is on.",
        "runs": [
            {"pkg": "internal/spynode", "test": "TestVerif_C08"},
        ],
    },
    "C15": {
        "level": "exploration",
        "technique": "runtime monitoring: round-trip / exact-consumption / all-prefixes monitor over generated values of every wire message type and of the stored transaction record",
        "level_text": "For each of the 37 message types hundreds (thorough: tens of thousands) of generated values with boundary integers at every varint width, empty and long lists and optional fields are encoded, decoded from a reader with trailing sentinel bytes, re-encoded and compared structurally; every strict prefix of every encoding must fail with an error; random concatenations must decode to the same sequence and stop at EOF; the type/name/payload table is checked for bijection; the stored tx record is round-tripped through the storage functions. Exploration: the value space is unbounded, generators are boundary-heavy.",
        "level_note": "Trusted: reflect-based structural equality (nil == empty slice), dependency encoders of wire.MsgTx / merkle_proof / bsor. Three payloads holding dependency types are compared by re-encoding only.",
        "runs": [
            {"pkg": "pkg/client", "test": "TestVerif_C15"},
            {"pkg": "internal/storage", "test": "TestVerif_C15Store"},
        ],
    },
    "C20": {
        "level": "exploration",
        "technique": "runtime monitoring: child-process crash/allocation monitor (address-space limit, per-input heap accounting) over mutated valid encodings and random bytes",
        "level_text": "Every decoder of the client protocol and every stored-record loader is fed valid encodings with maximal varints / fixed-width maxima spliced in at every byte offset, random bytes behind every type code and noise; decoding runs in a probe child under a 3 GiB address-space limit which reports the outcome and the bytes allocated, and the parent attributes a death to the input in flight. Findings: panic, process-fatal error, allocation above 1 MiB + 64*len(input). Exploration: the byte-string space is unbounded; the mutation set targets every count/length field of every format.",
        "level_note": "Trusted: runtime.ReadMemStats TotalAlloc as the allocation measure, the crash parser that extracts the dying function from the child's stderr. Decoders of dependencies (wire.MsgTx, bitcoin.Signature, bsor) are reached through spynode's decoders and findings inside them are attributed to the dependency frame.",
        "runs": [
            {"pkg": "pkg/client", "test": "TestVerif_C20"},
            {"pkg": "internal/storage", "test": "TestVerif_C20Store"},
        ],
    },
}
