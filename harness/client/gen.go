//go:build verif

package client

import (
	"math/rand"

	"github.com/tokenized/pkg/bitcoin"
	"github.com/tokenized/pkg/expanded_tx"
	"github.com/tokenized/pkg/merchant_api"
	"github.com/tokenized/pkg/merkle_proof"
	"github.com/tokenized/pkg/wire"
)

// Overlay value generators for the client wire protocol (used by the C15/C20 monitors here and by
// the stored-record monitors in internal/storage).  Not part of the repository.

var VerifAllTypes = []uint64{
	MessageTypeRegister, MessageTypeSubscribePushData, MessageTypeUnsubscribePushData,
	MessageTypeSubscribeTx, MessageTypeUnsubscribeTx, MessageTypeSubscribeOutputs,
	MessageTypeUnsubscribeOutputs, MessageTypeSubscribeHeaders, MessageTypeUnsubscribeHeaders,
	MessageTypeSubscribeContracts, MessageTypeUnsubscribeContracts, MessageTypeReady,
	MessageTypeGetChainTip, MessageTypeGetHeaders, MessageTypeSendTx, MessageTypeGetTx,
	MessageTypeGetHeader, MessageTypeGetFeeQuotes, MessageTypePostMerkleProofs,
	MessageTypeSendExpandedTx, MessageTypeSaveTxs, MessageTypeReprocessTx,
	MessageTypeMarkHeaderInvalid, MessageTypeMarkHeaderNotInvalid, MessageTypeAcceptRegister,
	MessageTypeBaseTx, MessageTypeTx, MessageTypeTxUpdate, MessageTypeInSync, MessageTypeChainTip,
	MessageTypeHeaders, MessageTypeHeader, MessageTypeFeeQuotes, MessageTypeAccept,
	MessageTypeReject, MessageTypePing, MessageTypePong,
}

var verifKeys []bitcoin.Key

func verifKey(r *rand.Rand) bitcoin.Key {
	if len(verifKeys) == 0 {
		for i := 0; i < 4; i++ {
			k, err := bitcoin.GenerateKey(bitcoin.MainNet)
			if err != nil {
				panic(err)
			}
			verifKeys = append(verifKeys, k)
		}
	}
	return verifKeys[r.Intn(len(verifKeys))]
}

var verifU64 = []uint64{0, 1, 2, 0xfc, 0xfd, 0xfe, 0xffff, 0x10000, 0xffffffff, 0x100000000, 0xffffffffffffffff}

// VerifU64 returns a boundary-heavy integer not above max.
func VerifU64(r *rand.Rand, max uint64) uint64 {
	for {
		var v uint64
		if r.Intn(3) == 0 {
			v = r.Uint64() >> uint(r.Intn(64))
		} else {
			v = verifU64[r.Intn(len(verifU64))]
		}
		if v <= max {
			return v
		}
	}
}

func verifLen(r *rand.Rand) int {
	switch r.Intn(12) {
	case 0:
		return 0
	case 1:
		return 252 + r.Intn(3)
	case 2:
		return 300
	case 3:
		if r.Intn(4) == 0 {
			return []int{1023, 1024, 1025, 2050}[r.Intn(4)] // around the decoders' pre-allocation cap
		}
	}
	return 1 + r.Intn(4)
}

func verifBytes(r *rand.Rand, n int) []byte {
	b := make([]byte, n)
	r.Read(b)
	return b
}

func VerifHash32(r *rand.Rand) bitcoin.Hash32 {
	var h bitcoin.Hash32
	r.Read(h[:])
	return h
}

func verifScript(r *rand.Rand) []byte {
	lens := []int{0, 1, 5, 25, 25, 34, 75, 76, 252, 253, 600}
	return verifBytes(r, lens[r.Intn(len(lens))])
}

func verifIndexes(r *rand.Rand) []uint32 {
	n := verifLen(r)
	out := make([]uint32, n)
	for i := range out {
		out[i] = uint32(VerifU64(r, 0xffffffff))
	}
	return out
}

func VerifMsgTx(r *rand.Rand, minIn int) *wire.MsgTx {
	tx := wire.NewMsgTx(int32(1 + r.Intn(2)))
	nin := minIn + r.Intn(4)
	for i := 0; i < nin; i++ {
		h := VerifHash32(r)
		in := wire.NewTxIn(&wire.OutPoint{Hash: h, Index: uint32(VerifU64(r, 0xffffffff))}, verifScript(r))
		in.Sequence = uint32(VerifU64(r, 0xffffffff))
		tx.AddTxIn(in)
	}
	for i := r.Intn(4); i > 0; i-- {
		tx.AddTxOut(wire.NewTxOut(VerifU64(r, 0xffffffffffffffff), verifScript(r)))
	}
	tx.LockTime = uint32(VerifU64(r, 0xffffffff))
	return tx
}

func VerifHeader(r *rand.Rand) wire.BlockHeader {
	return wire.BlockHeader{Version: int32(r.Uint32()), PrevBlock: VerifHash32(r), MerkleRoot: VerifHash32(r),
		Timestamp: r.Uint32(), Bits: r.Uint32(), Nonce: r.Uint32()}
}

func VerifMerkleProof(r *rand.Rand) *MerkleProof {
	mp := &MerkleProof{Index: VerifU64(r, 0xffffffffffffffff), BlockHeader: VerifHeader(r)}
	n := verifLen(r)
	if n > 40 {
		n = 40
	}
	for i := 0; i < n; i++ {
		mp.Path = append(mp.Path, VerifHash32(r))
	}
	for i := r.Intn(4); i > 0; i-- {
		mp.DuplicatedIndexes = append(mp.DuplicatedIndexes, VerifU64(r, 0xffffffffffffffff))
	}
	return mp
}

func VerifTxState(r *rand.Rand) TxState {
	s := TxState{Safe: r.Intn(2) == 0, UnSafe: r.Intn(2) == 0, Cancelled: r.Intn(2) == 0,
		UnconfirmedDepth: uint32(VerifU64(r, 0xffffffff))}
	if r.Intn(2) == 0 {
		s.MerkleProof = VerifMerkleProof(r)
	}
	return s
}

// VerifTx generates a Tx record: len(Outputs) == len(TxIn) is what "representable" means for it.
func VerifTx(r *rand.Rand) *Tx {
	t := &Tx{ID: VerifU64(r, 0xffffffffffffffff), Tx: VerifMsgTx(r, 0), State: VerifTxState(r)}
	t.Outputs = make([]*wire.TxOut, len(t.Tx.TxIn))
	for i := range t.Outputs {
		t.Outputs[i] = wire.NewTxOut(VerifU64(r, 0xffffffffffffffff), verifScript(r))
	}
	return t
}

func verifTSCProof(r *rand.Rand) *merkle_proof.MerkleProof {
	txid := VerifHash32(r)
	mp := merkle_proof.NewMerkleProof(txid)
	mp.Index = r.Intn(1000)
	for i := r.Intn(5); i > 0; i-- {
		mp.Path = append(mp.Path, VerifHash32(r))
	}
	switch r.Intn(3) {
	case 0:
		h := VerifHeader(r)
		mp.BlockHeader = &h
	case 1:
		h := VerifHash32(r)
		mp.BlockHash = &h
	default:
		h := VerifHash32(r)
		mp.MerkleRoot = &h
	}
	return mp
}

func verifAncestors(r *rand.Rand) expanded_tx.AncestorTxs {
	var out expanded_tx.AncestorTxs
	for i := r.Intn(3); i > 0; i-- {
		a := &expanded_tx.AncestorTx{Tx: VerifMsgTx(r, 1)}
		out = append(out, a)
	}
	return out
}

// VerifPayload generates a value of the given message type.
func VerifPayload(r *rand.Rand, t uint64) MessagePayload {
	switch t {
	case MessageTypeRegister:
		k := verifKey(r)
		sig, _ := k.Sign(VerifHash32(r))
		return &Register{Version: uint8(r.Intn(256)), Key: k.PublicKey(), Hash: VerifHash32(r),
			StartBlockHeight: uint32(VerifU64(r, 0xffffffff)), ChainTip: VerifHash32(r),
			ConnectionType: ConnectionType(r.Intn(256)), Signature: sig}
	case MessageTypeSubscribePushData, MessageTypeUnsubscribePushData:
		var pds [][]byte
		for i := verifLen(r); i > 0; i-- {
			pds = append(pds, verifScript(r))
		}
		if t == MessageTypeSubscribePushData {
			return &SubscribePushData{PushDatas: pds}
		}
		return &UnsubscribePushData{PushDatas: pds}
	case MessageTypeSubscribeTx:
		return &SubscribeTx{TxID: VerifHash32(r), Indexes: verifIndexes(r)}
	case MessageTypeUnsubscribeTx:
		return &UnsubscribeTx{TxID: VerifHash32(r), Indexes: verifIndexes(r)}
	case MessageTypeSubscribeOutputs, MessageTypeUnsubscribeOutputs:
		var ops []*wire.OutPoint
		for i := verifLen(r); i > 0; i-- {
			ops = append(ops, &wire.OutPoint{Hash: VerifHash32(r), Index: uint32(VerifU64(r, 0xffffffff))})
		}
		if t == MessageTypeSubscribeOutputs {
			return &SubscribeOutputs{Outputs: ops}
		}
		return &UnsubscribeOutputs{Outputs: ops}
	case MessageTypeSubscribeHeaders:
		return &SubscribeHeaders{}
	case MessageTypeUnsubscribeHeaders:
		return &UnsubscribeHeaders{}
	case MessageTypeSubscribeContracts:
		return &SubscribeContracts{}
	case MessageTypeUnsubscribeContracts:
		return &UnsubscribeContracts{}
	case MessageTypeReady:
		return &Ready{NextMessageID: VerifU64(r, 0xffffffffffffffff)}
	case MessageTypeGetChainTip:
		return &GetChainTip{}
	case MessageTypeGetHeaders:
		return &GetHeaders{RequestHeight: int32(r.Uint32()), MaxCount: uint32(VerifU64(r, 0xffffffff))}
	case MessageTypeSendTx:
		return &SendTx{Tx: VerifMsgTx(r, 1), Indexes: verifIndexes(r)}
	case MessageTypeSendExpandedTx:
		etx := &expanded_tx.ExpandedTx{Tx: VerifMsgTx(r, 1), Ancestors: verifAncestors(r)}
		return &SendExpandedTx{Tx: etx, Indexes: verifIndexes(r)}
	case MessageTypeSaveTxs:
		return &SaveTxs{Txs: verifAncestors(r)}
	case MessageTypeGetTx:
		return &GetTx{TxID: VerifHash32(r)}
	case MessageTypeGetHeader:
		return &GetHeader{BlockHash: VerifHash32(r)}
	case MessageTypeGetFeeQuotes:
		return &GetFeeQuotes{}
	case MessageTypePostMerkleProofs:
		var mps []*merkle_proof.MerkleProof
		for i := r.Intn(3); i > 0; i-- {
			mps = append(mps, verifTSCProof(r))
		}
		return &PostMerkleProofs{MerkleProofs: mps}
	case MessageTypeReprocessTx:
		var ids []bitcoin.Hash20
		for i := verifLen(r); i > 0; i-- {
			var h bitcoin.Hash20
			r.Read(h[:])
			ids = append(ids, h)
		}
		return &ReprocessTx{TxID: VerifHash32(r), ClientIDs: ids}
	case MessageTypeMarkHeaderInvalid:
		return &MarkHeaderInvalid{BlockHash: VerifHash32(r)}
	case MessageTypeMarkHeaderNotInvalid:
		return &MarkHeaderNotInvalid{BlockHash: VerifHash32(r)}
	case MessageTypeAcceptRegister:
		k := verifKey(r)
		sig, _ := k.Sign(VerifHash32(r))
		return &AcceptRegister{Key: k.PublicKey(), PushDataCount: VerifU64(r, 0xffffffffffffffff),
			UTXOCount: VerifU64(r, 0xffffffffffffffff), MessageCount: VerifU64(r, 0xffffffffffffffff), Signature: sig}
	case MessageTypeBaseTx:
		return &BaseTx{Tx: VerifMsgTx(r, 1)}
	case MessageTypeTx:
		return VerifTx(r)
	case MessageTypeTxUpdate:
		return &TxUpdate{ID: VerifU64(r, 0xffffffffffffffff), TxID: VerifHash32(r), State: VerifTxState(r)}
	case MessageTypeInSync:
		return &InSync{}
	case MessageTypeChainTip:
		return &ChainTip{Height: uint32(VerifU64(r, 0xffffffff)), Hash: VerifHash32(r)}
	case MessageTypeHeaders:
		h := &Headers{RequestHeight: int32(r.Uint32()), StartHeight: uint32(VerifU64(r, 0xffffffff))}
		n := verifLen(r)
		for i := 0; i < n; i++ {
			hd := VerifHeader(r)
			h.Headers = append(h.Headers, &hd)
		}
		return h
	case MessageTypeHeader:
		return &Header{Header: VerifHeader(r), BlockHeight: uint32(VerifU64(r, 0xffffffff)), IsMostPOW: r.Intn(2) == 0}
	case MessageTypeFeeQuotes:
		fq := &FeeQuotes{}
		for i := verifLen(r); i > 0; i-- {
			fq.FeeQuotes = append(fq.FeeQuotes, &merchant_api.FeeQuote{FeeType: merchant_api.FeeType(r.Intn(256)),
				MiningFee: merchant_api.Fee{Satoshis: VerifU64(r, 0xffffffffffffffff), Bytes: VerifU64(r, 0xffffffffffffffff)},
				RelayFee:  merchant_api.Fee{Satoshis: VerifU64(r, 0xffffffffffffffff), Bytes: VerifU64(r, 0xffffffffffffffff)}})
		}
		return fq
	case MessageTypeAccept:
		a := &Accept{MessageType: VerifU64(r, 0xffffffffffffffff)}
		if r.Intn(2) == 0 {
			h := VerifHash32(r)
			a.Hash = &h
		}
		return a
	case MessageTypeReject:
		a := &Reject{MessageType: VerifU64(r, 0xffffffffffffffff), Code: RejectCode(VerifU64(r, 0xffffffff)),
			Message: string(verifScript(r))}
		if r.Intn(2) == 0 {
			h := VerifHash32(r)
			a.Hash = &h
		}
		return a
	case MessageTypePing:
		return &Ping{TimeStamp: VerifU64(r, 0xffffffffffffffff)}
	case MessageTypePong:
		return &Pong{RequestTimeStamp: VerifU64(r, 0xffffffffffffffff), TimeStamp: VerifU64(r, 0xffffffffffffffff)}
	}
	return nil
}
