//go:build verif

package client

import (
	"context"
	"github.com/tokenized/spynode/internal/verifhook"
	"fmt"
	"math/rand"
	"sync"
	"sync/atomic"
	"testing"
	"time"

	"github.com/tokenized/pkg/wire"
	"github.com/tokenized/spynode/internal/verifkit"
)

// ---- C17: notifications in message-id order, exactly once ------------------------------------------------

type c17Item struct {
	Kind string `json:"k"` // msg dup skip back headers insync drop
	ID   uint64 `json:"id,omitempty"`
}

// c17Payload builds the notification with a given id (odd = Tx, even = TxUpdate).
func c17Payload(id uint64) MessagePayload {
	if id%2 == 1 {
		tx := vTx(uint32(id))
		outs := make([]*wire.TxOut, len(tx.TxIn))
		for i := range outs {
			outs[i] = wire.NewTxOut(1, []byte{0x51})
		}
		return &Tx{ID: id, Tx: tx, Outputs: outs}
	}
	return &TxUpdate{ID: id, TxID: *vTx(uint32(id)).TxHash(), State: TxState{Safe: true}}
}

type c17Server struct {
	mu        sync.Mutex
	total     uint64 // real messages have ids 1..total
	r         *rand.Rand
	dropsLeft int
	perturb   bool
	readies   []uint64 // NextMessageID declared on each connection
	sentLog   []string
	finished  chan struct{}
	finOnce   sync.Once
	pace      time.Duration
	slowPhase func() // non-nil while the slow-handler phase is running
	interleave bool    // unperturbed stream with unique Headers / InSync messages between the notifications
	order     []string // what was sent, in order (interleave family)
}

func (s *c17Server) logf(f string, a ...interface{}) {
	s.mu.Lock()
	if len(s.sentLog) < 400 {
		s.sentLog = append(s.sentLog, fmt.Sprintf(f, a...))
	}
	s.mu.Unlock()
}

func (s *c17Server) serve(vc *vconn) {
	vc.sendAccept("", nil)
	// wait for Ready
	var next uint64
	for m := range vc.in {
		if rd, ok := m.Payload.(*Ready); ok {
			next = rd.NextMessageID
			break
		}
	}
	if next == 0 {
		return
	}
	s.mu.Lock()
	s.readies = append(s.readies, next)
	s.mu.Unlock()
	s.logf("conn%d ready=%d", vc.id, next)
	send := func(p MessagePayload, what string) bool {
		if s.pace > 0 {
			time.Sleep(s.pace)
		}
		s.logf("conn%d %s", vc.id, what)
		return vc.send(p) == nil
	}
	for id := next; id <= s.total; id++ {
		s.mu.Lock()
		k := s.r.Intn(100)
		drop := s.dropsLeft > 0 && s.r.Intn(int(s.total)) < 3
		if drop {
			s.dropsLeft--
		}
		s.mu.Unlock()
		if drop {
			s.logf("conn%d drop-before-%d", vc.id, id)
			vc.c.Close()
			return
		}
		if s.perturb {
			switch {
			case k < 8 && id > 1: // duplicate of an earlier id
				back := id - 1 - uint64(k%3)
				if back >= 1 {
					if !send(c17Payload(back), fmt.Sprintf("dup/back id=%d", back)) {
						return
					}
				}
			case k < 14: // skip ahead
				if !send(c17Payload(id+1+uint64(k%3)), fmt.Sprintf("skip id=%d", id+1+uint64(k%3))) {
					return
				}
			case k < 20:
				hd := vHeader(uint32(id))
				if !send(&Headers{StartHeight: uint32(id), Headers: []*wire.BlockHeader{&hd}}, "headers") {
					return
				}
			case k < 24:
				if !send(&InSync{}, "insync") {
					return
				}
			}
		}
		if s.interleave {
			s.mu.Lock()
			k2 := s.r.Intn(10)
			s.mu.Unlock()
			if k2 < 4 {
				hd := vHeader(uint32(id))
				mark := uint32(1000000 + id)
				if !send(&Headers{StartHeight: mark, Headers: []*wire.BlockHeader{&hd}}, "headers") {
					return
				}
				s.mu.Lock()
				s.order = append(s.order, fmt.Sprintf("H%d", mark))
				s.mu.Unlock()
			} else if k2 < 5 {
				if !send(&InSync{}, "insync") {
					return
				}
				s.mu.Lock()
				s.order = append(s.order, "S")
				s.mu.Unlock()
			}
			s.mu.Lock()
			s.order = append(s.order, fmt.Sprintf("T%d", id))
			s.mu.Unlock()
		}
		if !send(c17Payload(id), fmt.Sprintf("id=%d", id)) {
			return
		}
	}
	if s.slowPhase != nil {
		// slow-handler family: end of the overflowing phase. The handler becomes fast again and
		// the connection is dropped; the next connection resends from the declared id.
		f := s.slowPhase
		s.slowPhase = nil
		time.Sleep(300 * time.Millisecond)
		f()
		vc.c.Close()
		return
	}
	// barrier marker: travels the same handler channel as the notifications
	send(&ChainTip{Height: 424242}, "barrier")
	s.finOnce.Do(func() { close(s.finished) })
	for range vc.in {
	}
}

func c17Check(rep *verifkit.Report, ci int, family string, e *cEnv, s *c17Server, nHandlers int, witness func() interface{}) {
	evs := e.log.snapshot()
	if family == "ready-back" {
		// per declaration: what follows Ready(k) is k, k+1, ... (the application asked for a replay)
		want := uint64(0)
		var got []uint64
		for _, ev := range evs {
			if ev.Handler != 0 {
				continue
			}
			switch ev.Kind {
			case "ready":
				want = ev.ID
			case "tx", "update":
				got = append(got, ev.ID)
				if want == 0 {
					continue
				}
				if ev.ID != want {
					rep.Finding(ci, "C17/ready-back/delivery-does-not-start-at-declared-id", fmt.Sprintf("after Ready(%d) the next notification delivered is id %d (delivered so far: %v)", want, ev.ID, trunc(got, len(got))), witness())
					return
				}
				want++
			}
		}
		if len(got) == 0 || got[len(got)-1] != s.total {
			rep.Finding(ci, "C17/ready-back/missed-notifications", fmt.Sprintf("the server resent every id from each declared id up to %d, the last delivered is %v", s.total, trunc(got, len(got))), witness())
		}
		if n := e.rc.NextMessageID(); len(got) > 0 && n != got[len(got)-1]+1 {
			rep.Finding(ci, "C17/ready-back/next-message-id", fmt.Sprintf("NextMessageID()=%d, last delivered %d", n, got[len(got)-1]), witness())
		}
		return
	}
	if family == "interleaved" {
		s.mu.Lock()
		sent := append([]string(nil), s.order...)
		s.mu.Unlock()
		for h := 0; h < nHandlers; h++ {
			var got []string
			for _, ev := range evs {
				if ev.Handler != h {
					continue
				}
				switch ev.Kind {
				case "tx", "update":
					got = append(got, fmt.Sprintf("T%d", ev.ID))
				case "headers":
					got = append(got, fmt.Sprintf("H%d", ev.ID))
				case "insync":
					got = append(got, "S")
				}
			}
			for i := 0; i < len(sent) && i < len(got); i++ {
				if sent[i] != got[i] {
					lo := i - 4
					if lo < 0 {
						lo = 0
					}
					rep.Finding(ci, "C17/interleaved/order-across-kinds", fmt.Sprintf("handler %d: position %d holds %s, the server sent %s there (sent %v, delivered %v)", h, i, got[i], sent[i], sent[lo:i+1], got[lo:i+1]), witness())
					return
				}
			}
			if len(got) != len(sent) {
				rep.Finding(ci, "C17/interleaved/count", fmt.Sprintf("handler %d received %d notifications of %d sent", h, len(got), len(sent)), witness())
				return
			}
		}
	}
	per := make([][]uint64, nHandlers)
	for _, ev := range evs {
		if ev.Kind == "tx" || ev.Kind == "update" {
			per[ev.Handler] = append(per[ev.Handler], ev.ID)
		}
	}
	s.mu.Lock()
	first := uint64(1)
	if len(s.readies) > 0 {
		first = s.readies[0]
	}
	s.mu.Unlock()
	for h, ids := range per {
		for i, id := range ids {
			want := first + uint64(i)
			if id != want {
				kind := "gap"
				if id < want {
					kind = "repeat-or-reorder"
				}
				rep.Finding(ci, "C17/"+family+"/delivered-ids-not-consecutive/"+kind, fmt.Sprintf("handler %d received id %d at position %d, expected %d (delivered so far: %v)", h, id, i, want, trunc(ids, i+1)), witness())
				return
			}
		}
		if h > 0 && fmt.Sprint(per[h]) != fmt.Sprint(per[0]) {
			rep.Finding(ci, "C17/"+family+"/handlers-disagree", fmt.Sprintf("handler 0 got %d notifications, handler %d got %d", len(per[0]), h, len(per[h])), witness())
			return
		}
	}
	last := first - 1
	if len(per[0]) > 0 {
		last = per[0][len(per[0])-1]
	}
	if got := e.rc.NextMessageID(); got != last+1 {
		rep.Finding(ci, "C17/"+family+"/next-message-id", fmt.Sprintf("at the barrier NextMessageID()=%d, last delivered id=%d", got, last), witness())
		return
	}
	if last != s.total {
		rep.Finding(ci, "C17/"+family+"/missed-notifications", fmt.Sprintf("the server (re)sent every id up to %d in order after the last Ready, but only ids up to %d were delivered", s.total, last), witness())
	}
}

func trunc(a []uint64, n int) []uint64 {
	if n > len(a) {
		n = len(a)
	}
	if n > 12 {
		return a[n-12 : n]
	}
	return a[:n]
}

func TestVerif_C17(t *testing.T) {
	rep := verifkit.NewReport("C17")
	rep.Rule = "each stream: the scripted server holds notifications with ids 1..K (Tx for odd, TxUpdate for even) and, like the real service, (re)sends from the id given in Ready on every connection, perturbed by duplicates, earlier ids, ids skipped ahead, interleaved Headers/InSync and connection drops at generated points; the application handler declares Ready(NextMessageID()) on every accept. A ChainTip marker through the same handler channel is the barrier. Families: normal (K<=60), interleaved (unperturbed stream with unique Headers / InSync between the notifications: delivery order equals send order across kinds), ready-back (the application declares Ready(own last - d): delivery restarts exactly at the declared id), backlog-drop (handler 3 ms per notification, drops while a backlog is queued, Ready declared from the handler's own progress), slow-handler (K=130, handler sleeps 25 ms per notification, message channel time-out 15 ms, so the 100-slot handler channel overflows). Non-trivial = stream contains a perturbation or a drop; distinct by perturbation sequence"
	rep.Assumptions = []string{"the scripted server resumes from the Ready id as the real service does", "barrier = marker message delivered through the client's FIFO handler channel"}
	defer rep.Write()

	// The server starts sending as soon as it has read the ready message: hold the goroutine that
	// called Ready right after its write, so that the first notifications are handled before it
	// goes on (the window between telling the server and updating the client's own state).
	verifhook.Set("client.ready.sent", func(ctx context.Context, site string) { time.Sleep(20 * time.Millisecond) })
	defer func() {
		rep.Event("hook_hits:client.ready.sent", verifhook.Hits("client.ready.sent"))
		verifhook.Set("client.ready.sent", nil)
	}()
	n := verifkit.N(120, 8000)
	for ci := 0; ci < n; ci++ {
		if !verifkit.Mine(ci) {
			continue
		}
		r := verifkit.Rand("C17", ci)
		family := "normal"
		opt := cOpt{connType: ConnectionTypeFull, requestTimeout: time.Second, messageTimeout: 2 * time.Second,
			handshakeTO: 2 * time.Second, retryDelay: 20 * time.Millisecond, autoReady: true, handlers: 1 + r.Intn(3)}
		s := &c17Server{total: uint64(5 + r.Intn(56)), r: rand.New(rand.NewSource(r.Int63())), dropsLeft: r.Intn(4), perturb: r.Intn(5) > 0, finished: make(chan struct{})}
		if ci%6 == 4 {
			// a backlog in the handler channel at the moment of a drop; the application declares
			// ready from its own progress (last handled id + 1), as cmd/client does
			family = "backlog-drop"
			opt.handlerDelay = 3 * time.Millisecond
			opt.readyOwn = true
			opt.handlers = 1
			s.total = uint64(40 + r.Intn(40))
			s.dropsLeft = 1 + r.Intn(3)
			s.perturb = false
		}
		if ci%6 == 3 {
			// every kind of notification travels one channel to the handlers: their order is the
			// order the server sent them in, across kinds
			family = "interleaved"
			s.interleave = true
			s.perturb = false
			s.dropsLeft = 0
			s.total = uint64(40 + r.Intn(60))
		}
		if ci%6 == 2 {
			// the application declares ready from its own records, which are up to three
			// notifications behind what it has handled: it wants those again
			family = "ready-back"
			opt.readyOwn = true
			opt.readyBack = uint64(1 + r.Intn(3))
			opt.handlers = 1
			s.total = uint64(30 + r.Intn(40))
			s.dropsLeft = 1 + r.Intn(3)
			s.perturb = false
		}
		if ci%6 == 5 {
			family = "slow-handler"
			opt.handlerDelay = 25 * time.Millisecond
			opt.messageTimeout = 15 * time.Millisecond
			opt.handlers = 1
			s.total = 130
			s.dropsLeft = 0
			s.perturb = false
		}
		var envRef *cEnv
		if family == "slow-handler" {
			s.slowPhase = func() {
				for _, rc := range envRef.recs {
					atomic.StoreInt64(&rc.delayNS, 0)
				}
			}
		}
		e, err := newCEnv(opt, func(vc *vconn) {
			for envRef == nil {
				time.Sleep(time.Millisecond)
			}
			s.serve(vc)
		})
		if err != nil {
			rep.Inconc(ci, "env: "+err.Error())
			continue
		}
		envRef = e
		witness := func() interface{} {
			s.mu.Lock()
			defer s.mu.Unlock()
			return map[string]interface{}{"family": family, "total": s.total, "readies": append([]uint64(nil), s.readies...), "server_sent": append([]string(nil), s.sentLog...)}
		}
		ok := false
		select {
		case <-s.finished:
			ok = true
		case <-time.After(20 * time.Second):
		}
		if !ok {
			rep.Inconc(ci, "server did not finish its stream")
			e.stop(3 * time.Second)
			continue
		}
		// barrier: the marker of the final connection reached handler 0
		reached := waitFor(15*time.Second, func() bool {
			for _, ev := range e.log.snapshot() {
				if ev.Kind == "chaintip" && ev.Handler == opt.handlers-1 {
					return true
				}
			}
			return false
		})
		if !reached {
			rep.Inconc(ci, "barrier marker not delivered")
			e.stop(3 * time.Second)
			continue
		}
		c17Check(rep, ci, family, e, s, opt.handlers, witness)
		e.stop(3 * time.Second)
		s.mu.Lock()
		fp := fmt.Sprint(family, len(s.readies), s.sentLog)
		nt := len(s.readies) > 1 || s.perturb || family != "normal"
		rep.Event("connections", int64(len(s.readies)))
		s.mu.Unlock()
		rep.Event("streams:"+family, 1)
		rep.Event("notifications_delivered", int64(len(e.log.snapshot())))
		rep.Case(fp, nt)
		if rep.WantSample() {
			rep.Sample(witness())
		}
	}
}
