//go:build verif

package state

import (
	"context"
	"fmt"
	"math/rand"
	"sync"
	"sync/atomic"
	"testing"
	"time"

	"github.com/anishathalye/porcupine"
	"github.com/tokenized/pkg/bitcoin"
	"github.com/tokenized/pkg/wire"
	"github.com/tokenized/spynode/internal/verifkit"
)

// ---- C13: block request queue --------------------------------------------------------------------
//
// Real code: state.State request queue (AddBlockRequest, AddBlock, NextBlock,
// GetNextBlockToRequest, ClearBlockRequests, ClearBlockRequestsAfter, SetLastHash).
// Oracle: a shadow of the observable history plus the invariants the property names; where the
// property leaves the code free (whether an accepted announcement is requested now or queued,
// the exact byte threshold) both choices are accepted.

type fakeBlock struct {
	hdr  wire.BlockHeader
	size int
	id   int
}

func (b *fakeBlock) GetHeader() wire.BlockHeader    { return b.hdr }
func (b *fakeBlock) IsMerkleRootValid() bool         { return true }
func (b *fakeBlock) GetTxCount() uint64              { return 0 }
func (b *fakeBlock) GetNextTx() (*wire.MsgTx, error) { return nil, nil }
func (b *fakeBlock) ResetTxs()                       {}
func (b *fakeBlock) SerializeSize() int              { return b.size }

// hash tree: node 0 is the saved tip; parent[] gives the chain structure.
type htree struct {
	hash   []bitcoin.Hash32
	parent []int
	index  map[bitcoin.Hash32]int
}

func newHTree() *htree { return &htree{index: map[bitcoin.Hash32]int{}} }

func (t *htree) add(parent int, salt uint32) int {
	var prev bitcoin.Hash32
	if parent >= 0 {
		prev = t.hash[parent]
	} else {
		prev[0] = byte(salt)
		prev[1] = 0xee
	}
	h := wire.BlockHeader{Version: 1, PrevBlock: prev, Nonce: salt, Timestamp: 1600000000 + salt}
	id := len(t.hash)
	t.hash = append(t.hash, *h.BlockHash())
	t.parent = append(t.parent, parent)
	t.index[t.hash[id]] = id
	return id
}

type qop struct {
	Op   string `json:"op"` // announce deliver pop next clearall clearafter setlast
	A    int    `json:"a"`  // node (announce: the announced node)
	B    int    `json:"b"`  // announce: claimed parent node
	Size int    `json:"size,omitempty"`
}

func (o qop) String() string {
	switch o.Op {
	case "announce":
		return fmt.Sprintf("announce(prev=%d,%d)", o.B, o.A)
	case "deliver":
		return fmt.Sprintf("deliver(%d,%dB)", o.A, o.Size)
	case "clearafter", "setlast":
		return fmt.Sprintf("%s(%d)", o.Op, o.A)
	}
	return o.Op
}

// qmodel is the property-level shadow: the chain-ordered list of announced, unprocessed blocks.
type qmodel struct {
	seq  []int        // outstanding nodes in order (requested ++ to-request)
	body map[int]*fakeBlock
	last int // node whose hash is the last processed/saved one
	proc int // node popped and still being processed (-1 none); counts as requested until finished
}

func (m *qmodel) clone() *qmodel {
	c := &qmodel{seq: append([]int(nil), m.seq...), body: map[int]*fakeBlock{}, last: m.last, proc: m.proc}
	for k, v := range m.body {
		c.body[k] = v
	}
	return c
}

func (m *qmodel) tail() int {
	if len(m.seq) > 0 {
		return m.seq[len(m.seq)-1]
	}
	return m.last
}

func (m *qmodel) bytes() int {
	n := 0
	for _, b := range m.body {
		n += b.size
	}
	return n
}

const (
	c13ClearlyAbove = 110000000
	c13ClearlyBelow = 90000000
	c13Window       = 10
)

type qviol struct{ rule, detail string }

var c13ctx = context.Background()

// applyOp performs op on the real queue and the shadow and returns the first violated rule.
func c13Apply(t *htree, st *State, m *qmodel, op qop, blockID *int) *qviol {
	before := st.VerifQueue()
	reqIdx := func(n int) int {
		for i, r := range before.Requested {
			if r.Hash == t.hash[n] {
				return i
			}
		}
		return -1
	}
	switch op.Op {
	case "announce":
		prev, hash := t.hash[op.B], t.hash[op.A]
		now, err := st.AddBlockRequest(&prev, &hash)
		wantOK := op.B == m.tail()
		if wantOK && err != nil {
			return &qviol{"announce-linked-refused", fmt.Sprintf("%v refused: %v", op, err)}
		}
		if !wantOK && err == nil {
			return &qviol{"announce-unlinked-accepted", fmt.Sprintf("%v accepted but tail is %d", op, m.tail())}
		}
		if err == nil {
			if now && m.bytes() > c13ClearlyAbove {
				return &qviol{"request-issued-above-byte-limit", fmt.Sprintf("%v returned request-now with %d bytes buffered", op, m.bytes())}
			}
			m.seq = append(m.seq, op.A)
			after := st.VerifQueue()
			if now {
				if len(after.Requested) == 0 || after.Requested[len(after.Requested)-1].Hash != hash {
					return &qviol{"request-now-not-tracked", fmt.Sprintf("%v returned request-now but is not the newest outstanding request", op)}
				}
			}
		}
	case "deliver":
		hash := t.hash[op.A]
		*blockID++
		blk := &fakeBlock{size: op.Size, id: *blockID}
		ok := st.AddBlock(&hash, blk)
		ri := reqIdx(op.A)
		if ri < 0 && ok {
			return &qviol{"unrequested-block-accepted", fmt.Sprintf("%v accepted although not requested", op)}
		}
		if ri >= 0 && !before.Requested[ri].HasBody && !ok {
			return &qviol{"requested-block-refused", fmt.Sprintf("%v refused although requested", op)}
		}
		if ri >= 0 {
			after := st.VerifQueue()
			// which body does the queue hold now? (a duplicate may be kept or replace the first)
			if ri < len(after.Requested) && after.Requested[ri].Block == wire.Block(blk) {
				m.body[op.A] = blk
			} else if !before.Requested[ri].HasBody {
				return &qviol{"delivered-body-lost", fmt.Sprintf("%v accepted but body not buffered", op)}
			}
		}
	case "pop":
		got := st.NextBlock()
		var want *fakeBlock
		if len(m.seq) > 0 {
			want = m.body[m.seq[0]]
		}
		if len(before.Requested) == 0 || !before.Requested[0].HasBody {
			want = nil
		}
		if got == nil && want != nil {
			return &qviol{"pop-withheld", fmt.Sprintf("head %d has its body but NextBlock returned nil", m.seq[0])}
		}
		if got != nil {
			fb, _ := got.(*fakeBlock)
			if want == nil || fb != want {
				return &qviol{"pop-out-of-order", fmt.Sprintf("NextBlock returned block id %d, head of queue is %v", fb.id, m.seq)}
			}
			delete(m.body, m.seq[0])
			m.last = m.seq[0]
			if _, ok := interface{}(st).(interface{ FinishedBlock() }); ok {
				m.proc = m.seq[0]
			}
			m.seq = m.seq[1:]
		}
	case "finish":
		if f, ok := interface{}(st).(interface{ FinishedBlock() }); ok {
			f.FinishedBlock()
		}
		m.proc = -1
	case "next":
		h, _ := st.GetNextBlockToRequest()
		nreq := len(before.Requested)
		if h != nil {
			if nreq >= c13Window {
				return &qviol{"window-exceeded", fmt.Sprintf("request issued with %d outstanding", nreq)}
			}
			if m.bytes() > c13ClearlyAbove {
				return &qviol{"request-issued-above-byte-limit", fmt.Sprintf("GetNextBlockToRequest issued a request with %d bytes buffered", m.bytes())}
			}
			if len(before.ToRequest) == 0 || *h != before.ToRequest[0] {
				return &qviol{"request-out-of-chain-order", "request is not the first waiting block"}
			}
		} else if len(before.ToRequest) > 0 && nreq < c13Window && m.bytes() < c13ClearlyBelow {
			// progress must not be withheld when window and byte budget are clearly free
			if before.PendingSize > maxPendingBlockSize {
				return &qviol{"request-withheld-by-leaked-bytes", fmt.Sprintf("%d waiting, %d outstanding, %d bytes really buffered, counter says %d", len(before.ToRequest), nreq, m.bytes(), before.PendingSize)}
			}
			return &qviol{"request-withheld", fmt.Sprintf("%d waiting, %d outstanding, %d bytes buffered", len(before.ToRequest), nreq, m.bytes())}
		}
	case "clearall":
		st.ClearBlockRequests(c13ctx)
		m.seq = nil
		m.body = map[int]*fakeBlock{}
	case "clearafter":
		st.ClearBlockRequestsAfter(c13ctx, t.hash[op.A])
		if m.proc >= 0 && op.A == m.proc {
			// the fork point is the block in processing: every outstanding block is beyond it
			m.seq = nil
			m.body = map[int]*fakeBlock{}
		}
		for i, n := range m.seq {
			if n == op.A {
				for _, d := range m.seq[i+1:] {
					delete(m.body, d)
				}
				m.seq = m.seq[:i+1]
				break
			}
		}
	case "setlast":
		st.SetLastHash(t.hash[op.A])
		m.last = op.A
	}
	return c13Probe(t, st, m, op)
}

// c13Probe compares the queue's observable state with the shadow.
func c13Probe(t *htree, st *State, m *qmodel, op qop) *qviol {
	s := st.VerifQueue()
	if len(s.Requested) > c13Window {
		return &qviol{"window-exceeded", fmt.Sprintf("%d requested", len(s.Requested))}
	}
	var all []bitcoin.Hash32
	for _, r := range s.Requested {
		all = append(all, r.Hash)
	}
	all = append(all, s.ToRequest...)
	if len(all) != len(m.seq) {
		return &qviol{"outstanding-set-wrong", fmt.Sprintf("after %v queue holds %d outstanding, expected %v", op, len(all), m.seq)}
	}
	for i := range all {
		if all[i] != t.hash[m.seq[i]] {
			return &qviol{"outstanding-set-wrong", fmt.Sprintf("after %v position %d differs, expected %v", op, i, m.seq)}
		}
	}
	sum := 0
	for i, r := range s.Requested {
		want := m.body[m.seq[i]]
		if r.HasBody != (want != nil) {
			return &qviol{"body-presence-wrong", fmt.Sprintf("after %v request %d body=%v", op, m.seq[i], r.HasBody)}
		}
		if want != nil {
			sum += want.size
		}
	}
	if s.PendingSize != sum {
		return &qviol{"bytes-accounting", fmt.Sprintf("after %v counter=%d, buffered bodies sum=%d", op, s.PendingSize, sum)}
	}
	if st.LastHash() != t.hash[m.tail()] {
		return &qviol{"last-hash-wrong", fmt.Sprintf("after %v", op)}
	}
	// membership queries the header handler relies on to announce each block once
	inR, inT := map[bitcoin.Hash32]bool{}, map[bitcoin.Hash32]bool{}
	for _, r := range s.Requested {
		inR[r.Hash] = true
	}
	for _, h := range s.ToRequest {
		inT[h] = true
	}
	for i := range t.hash {
		h := t.hash[i]
		if st.BlockIsRequested(&h) != (inR[h] || (m.proc >= 0 && t.hash[m.proc] == h)) {
			return &qviol{"is-requested-wrong", fmt.Sprintf("after %v BlockIsRequested(%d)=%v but requested set membership is %v", op, i, !inR[h], inR[h])}
		}
		if st.BlockIsToBeRequested(&h) != inT[h] {
			return &qviol{"is-to-be-requested-wrong", fmt.Sprintf("after %v BlockIsToBeRequested(%d)=%v", op, i, !inT[h])}
		}
	}
	if st.TotalBlockRequestCount() != len(m.seq) || st.BlocksRequestedCount() != len(s.Requested) {
		return &qviol{"counts-wrong", fmt.Sprintf("after %v", op)}
	}
	return nil
}

func c13Fresh(t *htree) (*State, *qmodel) {
	st := NewState()
	st.SetLastHash(t.hash[0])
	return st, &qmodel{body: map[int]*fakeBlock{}, last: 0, proc: -1}
}

func opsString(ops []qop) string {
	s := ""
	for _, o := range ops {
		s += o.String() + ";"
	}
	return s
}

func TestVerif_C13(t *testing.T) {
	rep := verifkit.NewReport("C13")
	rep.Rule = "bounded-exhaustive: every sequence of length<=D over a 25-operation alphabet on a 2-branch tree of 6 hashes (every prefix probed); random: length-80 sequences on a 40-block chain with forks and block sizes up to 60 MB; concurrent: 4 goroutines on one State, history checked by porcupine. Non-trivial = the sequence contains a clear, a fork announcement, an unrequested/duplicate delivery or reaches the window/byte limit; distinct by the multiset-free sequence of (op kind, accepted?) pairs"
	rep.Assumptions = []string{"fake wire.Block objects report the size the scenario claims", "overlay accessor VerifQueue reads unexported fields under State.lock", "byte limit only probed clearly below (<90MB) and clearly above (>110MB)"}
	defer rep.Write()

	c13Exhaustive(rep)
	c13Random(rep)
}

func TestVerif_C13Conc(t *testing.T) {
	rep := verifkit.NewReport("C13")
	defer rep.Write()
	c13Concurrent(rep)
}

// ---- bounded exhaustive ---------------------------------------------------------------------------

func c13SmallTree() (*htree, []qop) {
	t := newHTree()
	g := t.add(-1, 1)
	a1 := t.add(g, 2)
	a2 := t.add(a1, 3)
	a3 := t.add(a2, 4)
	b2 := t.add(a1, 5)
	b3 := t.add(b2, 6)
	u := t.add(-1, 7) // unknown parent
	x := t.add(u, 8)
	var ops []qop
	for _, n := range []int{a1, a2, a3, b2, b3, x} {
		ops = append(ops, qop{Op: "announce", A: n, B: t.parent[n]})
	}
	ops = append(ops, qop{Op: "announce", A: a2, B: g}, qop{Op: "announce", A: b3, B: a2})
	for _, n := range []int{a1, a2, a3, b2, b3, x} {
		ops = append(ops, qop{Op: "deliver", A: n, Size: 1000})
	}
	ops = append(ops, qop{Op: "deliver", A: a1, Size: 60000000})
	ops = append(ops, qop{Op: "pop"}, qop{Op: "finish"}, qop{Op: "next"}, qop{Op: "clearall"})
	for _, n := range []int{a1, a2, b2, x} {
		ops = append(ops, qop{Op: "clearafter", A: n})
	}
	ops = append(ops, qop{Op: "setlast", A: g}, qop{Op: "setlast", A: a1})
	return t, ops
}

func c13Exhaustive(rep *verifkit.Report) {
	tree, alphabet := c13SmallTree()
	depth := verifkit.N(5, 6)
	var nodes int64
	blockID := 0
	var dfs func(st *State, m *qmodel, prefix []qop)
	dfs = func(st *State, m *qmodel, prefix []qop) {
		if len(prefix) == depth {
			return
		}
		for _, op := range alphabet {
			st2, m2 := st.VerifClone(), m.clone()
			seq := append(append([]qop(nil), prefix...), op)
			nodes++
			if v := c13Apply(tree, st2, m2, op, &blockID); v != nil {
				rep.Finding(-1, "C13/"+v.rule+"/after-"+op.Op, v.detail+" | ops: "+opsString(seq),
					map[string]interface{}{"engine": "exhaustive", "ops": seq})
				continue // later steps of this sequence would only cascade
			}
			dfs(st2, m2, seq)
		}
	}
	// shard on the first operation
	for i, op := range alphabet {
		if !verifkit.Mine(i) || verifkit.OnlyCase() >= 0 {
			continue
		}
		st, m := c13Fresh(tree)
		nodes++
		first := []qop{op}
		if v := c13Apply(tree, st, m, op, &blockID); v != nil {
			rep.Finding(-1, "C13/"+v.rule+"/after-"+op.Op, v.detail+" | ops: "+opsString(first),
				map[string]interface{}{"engine": "exhaustive", "ops": first})
			continue
		}
		dfs(st, m, first)
	}
	rep.Event("exhaustive_sequences_probed", nodes)
	rep.Event("exhaustive_depth", int64(depth))
	rep.Note("bounded-exhaustive part: alphabet %d ops, depth %d, every prefix probed", len(alphabet), depth)
}

// ---- random long sequences ------------------------------------------------------------------------

type c13Big struct {
	t     *htree
	main  []int
	forks [][]int // each fork: nodes branching off main at some point
}

func c13BigTree(r *rand.Rand) *c13Big {
	b := &c13Big{t: newHTree()}
	n := b.t.add(-1, 1)
	b.main = append(b.main, n)
	salt := uint32(100)
	for i := 0; i < 40; i++ {
		salt++
		n = b.t.add(n, salt)
		b.main = append(b.main, n)
	}
	for f := 0; f < 6; f++ {
		at := b.main[r.Intn(len(b.main)-1)]
		var fk []int
		p := at
		for i := 0; i < 1+r.Intn(14); i++ {
			salt++
			p = b.t.add(p, salt)
			fk = append(fk, p)
		}
		b.forks = append(b.forks, fk)
	}
	return b
}

func c13Random(rep *verifkit.Report) {
	n := verifkit.N(4000, 300000)
	sizes := []int{1, 1000, 250000, 30000000, 60000000}
	for ci := 0; ci < n; ci++ {
		if !verifkit.Mine(ci) {
			continue
		}
		ci := ci
		verifkit.RunCase(rep, ci, func() {
			r := verifkit.Rand("C13/random", ci)
			big := c13BigTree(r)
			t := big.t
			st, m := c13Fresh(t)
			blockID := 0
			var ops []qop
			fp := ""
			nontrivial := false
			maxReq := 0
			for step := 0; step < 80; step++ {
				var op qop
				snap := st.VerifQueue()
				switch k := r.Intn(100); {
				case k < 30: // announce the child of the tail (main chain or a fork), sometimes wrong
					tail := m.tail()
					var kids []int
					for c, p := range t.parent {
						if p == tail {
							kids = append(kids, c)
						}
					}
					if len(kids) > 0 && r.Intn(10) > 0 {
						c := kids[r.Intn(len(kids))]
						op = qop{Op: "announce", A: c, B: tail}
					} else {
						c := 1 + r.Intn(len(t.hash)-1)
						op = qop{Op: "announce", A: c, B: t.parent[c]}
						if op.B < 0 {
							op.B = 0
						}
					}
				case k < 55: // deliver: mostly a requested block, any position
					if len(snap.Requested) > 0 && r.Intn(8) > 0 {
						h := snap.Requested[r.Intn(len(snap.Requested))].Hash
						op = qop{Op: "deliver", A: t.index[h], Size: sizes[r.Intn(len(sizes))]}
					} else {
						op = qop{Op: "deliver", A: r.Intn(len(t.hash)), Size: sizes[r.Intn(len(sizes))]}
					}
				case k < 68:
					op = qop{Op: "pop"}
				case k < 72:
					op = qop{Op: "finish"}
				case k < 88:
					op = qop{Op: "next"}
				case k < 90:
					op = qop{Op: "clearall"}
				case k < 97: // fork among pending: clear after an outstanding block, then announce a fork child
					if m.proc >= 0 && r.Intn(4) == 0 {
						op = qop{Op: "clearafter", A: m.proc} // fork at the block in processing
					} else if len(m.seq) > 0 {
						op = qop{Op: "clearafter", A: m.seq[r.Intn(len(m.seq))]}
					} else {
						op = qop{Op: "clearafter", A: r.Intn(len(t.hash))}
					}
				default:
					op = qop{Op: "setlast", A: r.Intn(len(t.hash))}
					if len(m.seq) > 0 { // only meaningful with an empty queue (after a revert)
						op = qop{Op: "next"}
					}
				}
				ops = append(ops, op)
				v := c13Apply(t, st, m, op, &blockID)
				after := st.VerifQueue()
				if len(after.Requested) > maxReq {
					maxReq = len(after.Requested)
				}
				acc := len(after.Requested)+len(after.ToRequest) != len(snap.Requested)+len(snap.ToRequest)
				fp += fmt.Sprintf("%s%v,", op.Op[:2], acc)
				if op.Op == "clearall" || op.Op == "clearafter" || maxReq >= c13Window || m.bytes() > maxPendingBlockSize {
					nontrivial = true
				}
				rep.Event("random_op:"+op.Op, 1)
				if v != nil {
					rep.Finding(ci, "C13/"+v.rule+"/after-"+op.Op, v.detail+" | ops: "+opsString(ops),
						map[string]interface{}{"engine": "random", "ops": ops})
					break
				}
			}
			if maxReq >= c13Window {
				rep.Event("random_cases_reaching_window", 1)
			}
			if m.bytes() > maxPendingBlockSize {
				rep.Event("random_cases_above_byte_limit", 1)
			}
			rep.Case(fp, nontrivial)
			if rep.WantSample() {
				rep.Sample(map[string]interface{}{"engine": "random", "case": ci, "ops": opsString(ops)})
			}
		})
	}
}

// ---- concurrent histories + porcupine -------------------------------------------------------------

type cIn struct {
	Op   string
	A, B int
	Size int
}
type cOut struct {
	Now, Err, OK bool
	Node         int // pop / next result, -1 = nil
}

// sequential specification used for the linearizability check; sizes are chosen far from the byte
// limit so that it is deterministic.
type cState struct {
	seq   string // node ids as bytes
	body  string // '1' where a body is buffered
	nreq  int
	last  byte
	bytes int
}

func c13Model(sizeOf func(int) int) porcupine.Model {
	return porcupine.Model{
		Init: func() interface{} { return cState{last: 0} },
		Step: func(state, input, output interface{}) (bool, interface{}) {
			s := state.(cState)
			in := input.(cIn)
			out := output.(cOut)
			tail := s.last
			if len(s.seq) > 0 {
				tail = s.seq[len(s.seq)-1]
			}
			switch in.Op {
			case "announce":
				if byte(in.B) != tail {
					return out.Err, s
				}
				if out.Err {
					return false, s
				}
				canNow := s.nreq == len(s.seq) && s.nreq < c13Window && s.bytes <= maxPendingBlockSize
				if out.Now != canNow {
					return false, s
				}
				s.seq += string([]byte{byte(in.A)})
				s.body += "0"
				if out.Now {
					s.nreq++
				}
				return true, s
			case "deliver":
				idx := -1
				for i := 0; i < s.nreq; i++ {
					if s.seq[i] == byte(in.A) {
						idx = i
					}
				}
				if idx < 0 {
					return !out.OK, s
				}
				if !out.OK {
					return false, s
				}
				b := []byte(s.body)
				b[idx] = '1'
				s.body = string(b)
				s.bytes += in.Size
				return true, s
			case "pop":
				if s.nreq == 0 || s.body[0] != '1' {
					return out.Node == -1, s
				}
				if out.Node != int(s.seq[0]) {
					return false, s
				}
				s.bytes -= sizeOf(int(s.seq[0]))
				s.last = s.seq[0]
				s.seq, s.body = s.seq[1:], s.body[1:]
				s.nreq--
				return true, s
			case "next":
				if s.nreq == len(s.seq) || s.nreq >= c13Window || s.bytes > maxPendingBlockSize {
					return out.Node == -1, s
				}
				if out.Node != int(s.seq[s.nreq]) {
					return false, s
				}
				s.nreq++
				return true, s
			}
			return false, s
		},
		Equal: func(a, b interface{}) bool { return a.(cState) == b.(cState) },
	}
}

func c13Concurrent(rep *verifkit.Report) {
	n := verifkit.N(300, 20000)
	for ci := 0; ci < n; ci++ {
		if !verifkit.Mine(ci) {
			continue
		}
		r := verifkit.Rand("C13/concurrent", ci)
		t := newHTree()
		prev := t.add(-1, 1)
		chain := []int{prev}
		L := 14 + r.Intn(10)
		for i := 0; i < L; i++ {
			prev = t.add(prev, uint32(10+i))
			chain = append(chain, prev)
		}
		sizeByNode := map[int]int{}
		for _, nd := range chain {
			sizeByNode[nd] = 1000 + r.Intn(5)*1000
		}
		st := NewState()
		st.SetLastHash(t.hash[0])
		var clock int64
		var mu sync.Mutex
		var hist []porcupine.Operation
		rec := func(client int, in cIn, f func() cOut) {
			c := atomic.AddInt64(&clock, 1)
			out := f()
			ret := atomic.AddInt64(&clock, 1)
			mu.Lock()
			hist = append(hist, porcupine.Operation{ClientId: client, Input: in, Call: c, Output: out, Return: ret})
			mu.Unlock()
		}
		var wg sync.WaitGroup
		seeds := []int64{r.Int63(), r.Int63(), r.Int63(), r.Int63()}
		// client 0: header handler — announces the chain in order (plus a few unlinked attempts)
		wg.Add(1)
		go func() {
			defer wg.Done()
			rr := rand.New(rand.NewSource(seeds[0]))
			for i := 1; i < len(chain); i++ {
				a, b := chain[i], chain[i-1]
				if rr.Intn(6) == 0 && i+1 < len(chain) {
					wa, wb := chain[i+1], chain[i-1] // unlinked
					rec(0, cIn{Op: "announce", A: wa, B: wb}, func() cOut {
						now, err := st.AddBlockRequest(&t.hash[wb], &t.hash[wa])
						return cOut{Now: now, Err: err != nil}
					})
				}
				rec(0, cIn{Op: "announce", A: a, B: b}, func() cOut {
					now, err := st.AddBlockRequest(&t.hash[b], &t.hash[a])
					return cOut{Now: now, Err: err != nil}
				})
				if rr.Intn(3) == 0 {
					time.Sleep(time.Duration(rr.Intn(30)) * time.Microsecond)
				}
			}
		}()
		// clients 1,2: block handlers — deliver each block once, in a random order, split in two
		perm := r.Perm(len(chain) - 1)
		for c := 0; c < 2; c++ {
			wg.Add(1)
			go func(c int) {
				defer wg.Done()
				rr := rand.New(rand.NewSource(seeds[1+c]))
				mine := []int{}
				for i, p := range perm {
					if i%2 == c {
						mine = append(mine, chain[1+p])
					}
				}
				pending := mine
				for tries := 0; len(pending) > 0 && tries < 400; tries++ {
					k := rr.Intn(len(pending))
					nd := pending[k]
					var ok bool
					rec(1+c, cIn{Op: "deliver", A: nd, Size: sizeByNode[nd]}, func() cOut {
						ok = st.AddBlock(&t.hash[nd], &fakeBlock{size: sizeByNode[nd], id: nd})
						return cOut{OK: ok}
					})
					if ok {
						pending = append(pending[:k], pending[k+1:]...)
					} else {
						time.Sleep(time.Duration(rr.Intn(20)) * time.Microsecond)
					}
				}
			}(c)
		}
		// client 3: block processor — pop, then ask for further requests
		wg.Add(1)
		go func() {
			defer wg.Done()
			rr := rand.New(rand.NewSource(seeds[3]))
			popped := 0
			for tries := 0; popped < len(chain)-1 && tries < 600; tries++ {
				var got wire.Block
				rec(3, cIn{Op: "pop"}, func() cOut {
					got = st.NextBlock()
					if got == nil {
						return cOut{Node: -1}
					}
					return cOut{Node: got.(*fakeBlock).id}
				})
				if got != nil {
					popped++
				}
				for {
					var h *bitcoin.Hash32
					rec(3, cIn{Op: "next"}, func() cOut {
						h, _ = st.GetNextBlockToRequest()
						if h == nil {
							return cOut{Node: -1}
						}
						return cOut{Node: t.index[*h]}
					})
					if h == nil {
						break
					}
				}
				if got == nil {
					time.Sleep(time.Duration(5+rr.Intn(40)) * time.Microsecond)
				}
			}
		}()
		wg.Wait()
		// distinct interleaving fingerprint: order of clients in the recorded call order
		fp := ""
		concurrentPairs := 0
		for i, op := range hist {
			fp += fmt.Sprintf("%d", op.ClientId)
			if i > 0 && hist[i-1].Return > op.Call {
				concurrentPairs++
			}
		}
		res, _ := porcupine.CheckOperationsVerbose(c13Model(func(nd int) int { return sizeByNode[nd] }), hist, 20*time.Second)
		rep.Event("concurrent_histories", 1)
		rep.Event("concurrent_ops", int64(len(hist)))
		rep.Event("concurrent_overlapping_pairs", int64(concurrentPairs))
		switch res {
		case porcupine.Illegal:
			var w []string
			for _, op := range hist {
				w = append(w, fmt.Sprintf("c%d [%d,%d] %+v -> %+v", op.ClientId, op.Call, op.Return, op.Input, op.Output))
			}
			rep.Finding(ci, "C13/not-linearizable/concurrent-queue-history", "recorded history of the request queue is not linearizable w.r.t. the sequential queue model", map[string]interface{}{"engine": "concurrent", "history": w})
		case porcupine.Unknown:
			rep.Inconc(ci, "porcupine timeout")
		}
		// final state: everything processed in order, nothing buffered
		q := st.VerifQueue()
		if len(q.Requested)+len(q.ToRequest) == 0 && q.PendingSize != 0 {
			rep.Finding(ci, "C13/bytes-accounting/after-concurrent-drain", fmt.Sprintf("queue empty but counter=%d", q.PendingSize), nil)
		}
		rep.Case("conc:"+fp, concurrentPairs > 0)
	}
}
