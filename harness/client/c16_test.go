//go:build verif

package client

import (
	"context"
	"crypto/sha256"
	"fmt"
	"math/rand"
	"sync"
	"sync/atomic"
	"testing"
	"time"

	"github.com/pkg/errors"
	"github.com/tokenized/pkg/bitcoin"
	"github.com/tokenized/pkg/expanded_tx"
	"github.com/tokenized/pkg/merchant_api"
	"github.com/tokenized/pkg/wire"
	"github.com/tokenized/spynode/internal/verifhook"
	"github.com/tokenized/spynode/internal/verifkit"
)

// ---- C16: every call gets the response to its own request ---------------------------------------------

const c16Timeout = 400 * time.Millisecond

type c16Call struct {
	Kind    string `json:"kind"`
	Seed    uint32 `json:"seed"`
	Action  string `json:"action"` // answer twice reject never late
	DelayMS int    `json:"delay_ms"`
	StartMS int    `json:"start_ms,omitempty"` // the call is issued this long after the others

	key      bitcoin.Hash32
	height   int
	start    time.Duration
	end      time.Duration
	err      error
	okValue  bool          // returned value is the one scripted for this key
	valueErr string        // description when not
	wroteAt  time.Duration // when the server wrote the (first) answer; 0 = never
}

func saveTxsHash(txs expanded_tx.AncestorTxs) bitcoin.Hash32 {
	h := sha256.New()
	for _, t := range txs {
		id := *t.Tx.TxHash()
		h.Write(id[:])
	}
	r, _ := bitcoin.NewHash32(h.Sum(nil))
	return *r
}

func c16FeeQuotes() merchant_api.FeeQuotes {
	return merchant_api.FeeQuotes{{FeeType: merchant_api.FeeTypeStandard, MiningFee: merchant_api.Fee{Satoshis: 77, Bytes: 1000}, RelayFee: merchant_api.Fee{Satoshis: 11, Bytes: 1000}}}
}

var c16Kinds = []string{"GetTx", "GetHeaders", "GetHeadersRecent", "GetHeader", "SendTx", "SaveTxs", "ReprocessTx", "MarkHeaderInvalid", "MarkHeaderNotInvalid", "GetFeeQuotes"}

func c16Rejectable(kind string) bool { return kind != "GetHeaders" && kind != "GetHeadersRecent" }

// c16Server answers requests of one connection according to the round's script.
type c16Script struct {
	mu                sync.Mutex
	byKey             map[string]*c16Call // request key -> scripted call
	wg                sync.WaitGroup
	noise             int
	noZeroHeightNoise bool // a call for height 0 is scripted: an unsolicited push with request height 0 would be indistinguishable from its answer
}

func c16Key(kind string, h bitcoin.Hash32, height int) string {
	if kind == "GetHeaders" || kind == "GetHeadersRecent" {
		return fmt.Sprintf("GetHeaders/%d", height)
	}
	if kind == "GetFeeQuotes" {
		return kind
	}
	return kind + "/" + h.String()
}

func (s *c16Script) response(c *c16Call) MessagePayload {
	switch c.Kind {
	case "GetTx":
		return &BaseTx{Tx: vTx(c.Seed)}
	case "GetHeaders":
		h := vHeader(uint32(c.height))
		return &Headers{RequestHeight: int32(c.height), StartHeight: uint32(c.height), Headers: []*wire.BlockHeader{&h}}
	case "GetHeadersRecent":
		// "most recent": the request height is -1, the first header sits at some real height -
		// here the height another pending call may be asking for
		h := vHeader(c.Seed)
		return &Headers{RequestHeight: -1, StartHeight: c.Seed, Headers: []*wire.BlockHeader{&h}}
	case "GetHeader":
		return &Header{Header: vHeader(c.Seed), BlockHeight: c.Seed, IsMostPOW: true}
	case "GetFeeQuotes":
		return &FeeQuotes{FeeQuotes: c16FeeQuotes()}
	case "SendTx":
		return &Accept{MessageType: MessageTypeSendTx, Hash: &c.key}
	case "SaveTxs":
		return &Accept{MessageType: MessageTypeSaveTxs, Hash: &c.key}
	case "ReprocessTx":
		return &Accept{MessageType: MessageTypeReprocessTx, Hash: &c.key}
	case "MarkHeaderInvalid":
		return &Accept{MessageType: MessageTypeMarkHeaderInvalid, Hash: &c.key}
	case "MarkHeaderNotInvalid":
		return &Accept{MessageType: MessageTypeMarkHeaderNotInvalid, Hash: &c.key}
	}
	return nil
}

func c16RequestType(kind string) uint64 {
	switch kind {
	case "GetTx":
		return MessageTypeGetTx
	case "GetHeader":
		return MessageTypeGetHeader
	case "GetFeeQuotes":
		return MessageTypeGetFeeQuotes
	case "SendTx":
		return MessageTypeSendTx
	case "SaveTxs":
		return MessageTypeSaveTxs
	case "ReprocessTx":
		return MessageTypeReprocessTx
	case "MarkHeaderInvalid":
		return MessageTypeMarkHeaderInvalid
	case "MarkHeaderNotInvalid":
		return MessageTypeMarkHeaderNotInvalid
	}
	return MessageTypeGetHeaders
}

func (s *c16Script) keyOfRequest(m *Message) (string, bool) {
	switch p := m.Payload.(type) {
	case *GetTx:
		return c16Key("GetTx", p.TxID, 0), true
	case *GetHeaders:
		return c16Key("GetHeaders", bitcoin.Hash32{}, int(p.RequestHeight)), true
	case *GetHeader:
		return c16Key("GetHeader", p.BlockHash, 0), true
	case *GetFeeQuotes:
		return "GetFeeQuotes", true
	case *SendTx:
		return c16Key("SendTx", *p.Tx.TxHash(), 0), true
	case *SaveTxs:
		return c16Key("SaveTxs", saveTxsHash(p.Txs), 0), true
	case *ReprocessTx:
		return c16Key("ReprocessTx", p.TxID, 0), true
	case *MarkHeaderInvalid:
		return c16Key("MarkHeaderInvalid", p.BlockHash, 0), true
	case *MarkHeaderNotInvalid:
		return c16Key("MarkHeaderNotInvalid", p.BlockHash, 0), true
	}
	return "", false
}

func (s *c16Script) serve(vc *vconn, noiseRand *rand.Rand) {
	vc.sendAccept("", nil)
	for m := range vc.in {
		key, isReq := s.keyOfRequest(m)
		if !isReq {
			continue
		}
		s.mu.Lock()
		c := s.byKey[key]
		s.mu.Unlock()
		if c == nil {
			continue
		}
		// unsolicited noise before handling
		if noiseRand.Intn(3) == 0 {
			s.sendNoise(vc, noiseRand)
		}
		s.wg.Add(1)
		go func(c *c16Call) {
			defer s.wg.Done()
			if c.Action == "never" {
				return
			}
			time.Sleep(time.Duration(c.DelayMS) * time.Millisecond)
			var resp MessagePayload
			if c.Action == "reject" {
				k := c.key
				resp = &Reject{MessageType: c16RequestType(c.Kind), Hash: &k, Code: RejectCode(2 + c.Seed%3), Message: "rej-" + c.key.String()[:12]}
			} else {
				resp = s.response(c)
			}
			s.mu.Lock()
			c.wroteAt = time.Since(vc.srv.start)
			s.mu.Unlock()
			vc.send(resp)
			if c.Action == "twice" {
				time.Sleep(3 * time.Millisecond)
				vc.send(resp)
			}
		}(c)
	}
}

func (s *c16Script) sendNoise(vc *vconn, r *rand.Rand) {
	s.mu.Lock()
	s.noise++
	s.mu.Unlock()
	seed := uint32(900000 + r.Intn(1000))
	var h bitcoin.Hash32
	r.Read(h[:])
	switch r.Intn(6) {
	case 0:
		vc.send(&BaseTx{Tx: vTx(seed)})
	case 1:
		vc.send(&Accept{MessageType: []uint64{MessageTypeSendTx, MessageTypeSaveTxs, MessageTypeReprocessTx, MessageTypeMarkHeaderInvalid}[r.Intn(4)], Hash: &h})
	case 2:
		vc.send(&Reject{MessageType: []uint64{MessageTypeSendTx, MessageTypeGetTx, MessageTypeGetHeader}[r.Intn(3)], Hash: &h, Code: RejectCodeInvalid, Message: "noise"})
	case 3:
		vc.send(&Header{Header: vHeader(seed), BlockHeight: seed})
	case 4:
		if s.noZeroHeightNoise {
			vc.send(&Header{Header: vHeader(seed), BlockHeight: seed})
			return
		}
		// an unsolicited headers push (request height zero) whose first header sits at a height a
		// pending call is asking for
		s.mu.Lock()
		for _, c := range s.byKey {
			if c.Kind == "GetHeaders" {
				seed = uint32(c.height)
			}
		}
		s.mu.Unlock()
		hd := vHeader(seed + 777777)
		vc.send(&Headers{RequestHeight: 0, StartHeight: seed, Headers: []*wire.BlockHeader{&hd}})
	case 5:
		vc.send(&Accept{MessageType: MessageTypeSendTx}) // no hash
	}
}

func c16DoCall(e *cEnv, c *c16Call) {
	c.start = time.Since(e.srv.start)
	switch c.Kind {
	case "GetTx":
		tx, err := e.rc.GetTx(vQuiet, c.key)
		c.err = err
		if err == nil {
			if tx == nil || *tx.TxHash() != c.key {
				c.valueErr = "returned transaction is not the one requested"
			} else {
				c.okValue = true
			}
		}
	case "GetHeadersRecent":
		h, err := e.rc.GetHeaders(vQuiet, -1, 1)
		c.err = err
		if err == nil {
			want := vHeader(c.Seed)
			if h == nil || h.RequestHeight != -1 || len(h.Headers) != 1 || *h.Headers[0].BlockHash() != *want.BlockHash() {
				c.valueErr = "returned headers are not the answer to the most-recent (-1) request"
			} else {
				c.okValue = true
			}
		}
	case "GetHeaders":
		h, err := e.rc.GetHeaders(vQuiet, c.height, 1)
		c.err = err
		if err == nil {
			want := vHeader(uint32(c.height))
			if h == nil || int(h.RequestHeight) != c.height || len(h.Headers) != 1 || *h.Headers[0].BlockHash() != *want.BlockHash() {
				c.valueErr = fmt.Sprintf("returned headers are not those of height %d", c.height)
			} else {
				c.okValue = true
			}
		}
	case "GetHeader":
		h, err := e.rc.GetHeader(vQuiet, c.key)
		c.err = err
		if err == nil {
			if h == nil || *h.Header.BlockHash() != c.key || h.BlockHeight != c.Seed {
				c.valueErr = "returned header is not the one requested"
			} else {
				c.okValue = true
			}
		}
	case "GetFeeQuotes":
		q, err := e.rc.GetFeeQuotes(vQuiet)
		c.err = err
		if err == nil {
			if len(q) != 1 || q[0].MiningFee.Satoshis != 77 {
				c.valueErr = "returned fee quotes are not the scripted ones"
			} else {
				c.okValue = true
			}
		}
	case "SendTx":
		c.err = e.rc.SendTx(vQuiet, vTx(c.Seed))
		c.okValue = c.err == nil
	case "SaveTxs":
		c.err = e.rc.SaveTxs(vQuiet, expanded_tx.AncestorTxs{{Tx: vTx(c.Seed)}, {Tx: vTx(c.Seed + 500000)}})
		c.okValue = c.err == nil
	case "ReprocessTx":
		c.err = e.rc.ReprocessTx(vQuiet, c.key, nil)
		c.okValue = c.err == nil
	case "MarkHeaderInvalid":
		c.err = e.rc.MarkHeaderInvalid(vQuiet, c.key)
		c.okValue = c.err == nil
	case "MarkHeaderNotInvalid":
		c.err = e.rc.MarkHeaderNotInvalid(vQuiet, c.key)
		c.okValue = c.err == nil
	}
	c.end = time.Since(e.srv.start)
}

func c16MakeCall(kind string, seed uint32) *c16Call {
	c := &c16Call{Kind: kind, Seed: seed}
	switch kind {
	case "GetTx", "SendTx", "ReprocessTx":
		c.key = *vTx(seed).TxHash()
	case "SaveTxs":
		c.key = saveTxsHash(expanded_tx.AncestorTxs{{Tx: vTx(seed)}, {Tx: vTx(seed + 500000)}})
	case "GetHeader", "MarkHeaderInvalid", "MarkHeaderNotInvalid":
		h := vHeader(seed)
		c.key = *h.BlockHash()
	case "GetHeaders":
		c.height = int(seed)
	case "GetHeadersRecent":
		c.height = -1
	}
	return c
}

func TestVerif_C16(t *testing.T) {
	rep := verifkit.NewReport("C16")
	rep.Rule = "each round: a fresh RemoteClient (full or control connection) against a scripted loopback server; 2..24 concurrent calls of mixed kinds with pairwise distinct keys (at most one fee-quote call); the server answers each by script: after 0-120 ms, twice, with a reject (kinds a Reject can address), never, or after the time-out; in every fourth round pairs of calls of one kind are staggered so that the first (never answered) times out while the second is pending and answered afterwards, interleaved with unsolicited BaseTx/Accept/Reject/Header/Headers; every response is self-identifying and the oracle checks value/reject/time-out per call. Plus outputs-lookup rounds (repeated txids, any order, out-of-range indexes). Non-trivial = round has >=2 concurrent calls and at least one non-plain action; distinct by multiset of (kind, action)"
	rep.Assumptions = []string{"RequestTimeout 400 ms; an answered call that still times out is only judged when the answer was written >120 ms before the deadline and the round was re-run on its own (first occurrence is inconclusive)", "time-out lower bound uses one monotonic clock in the test process"}
	defer rep.Write()

	// in two rounds of five the goroutine that owns the pending-request list is slowed down (1 ms per
	// iteration, hook client.requests.iteration): registrations and responses then wait in its
	// channels together, as they do on a loaded machine
	// One round in ten stalls that goroutine once for longer than the request time-out right after
	// the first registration, with every call unanswered: registrations and deregistrations then
	// wait together, and the second wave asks for the same keys again.
	var slowRequests, stallOnce int32
	verifhook.Set("client.requests.iteration", func(ctx context.Context, site string) {
		if atomic.LoadInt32(&slowRequests) != 0 {
			time.Sleep(time.Millisecond)
		}
		if atomic.CompareAndSwapInt32(&stallOnce, 2, 0) {
			time.Sleep(c16Timeout + 150*time.Millisecond)
		}
		atomic.CompareAndSwapInt32(&stallOnce, 1, 2) // armed: the next iteration stalls
	})
	defer func() {
		rep.Event("hook_hits:client.requests.iteration", verifhook.Hits("client.requests.iteration"))
		verifhook.Set("client.requests.iteration", nil)
	}()

	n := verifkit.N(160, 10000)
	for ci := 0; ci < n; ci++ {
		if !verifkit.Mine(ci) {
			continue
		}
		r := verifkit.Rand("C16", ci)
		stall := ci%10 == 4
		slow := ci%5 == 2 || (ci%5 == 4 && !stall)
		margin := 120 * time.Millisecond
		if slow {
			atomic.StoreInt32(&slowRequests, 1)
			margin = 220 * time.Millisecond
			rep.Event("rounds_with_slow_request_loop", 1)
		} else {
			atomic.StoreInt32(&slowRequests, 0)
		}
		if ci%8 == 7 {
			c16Outputs(rep, ci, r)
			continue
		}
		connType := ConnectionTypeFull
		if r.Intn(3) == 0 {
			connType = ConnectionTypeControl
		}
		script := &c16Script{byKey: map[string]*c16Call{}}
		ncalls := 2 + r.Intn(23)
		var calls []*c16Call
		usedFee := false
		usedRecent := false
		for i := 0; i < ncalls; i++ {
			kind := c16Kinds[r.Intn(len(c16Kinds))]
			if kind == "GetFeeQuotes" {
				if usedFee {
					kind = "GetTx"
				}
				usedFee = true
			}
			if kind == "GetHeadersRecent" {
				if usedRecent {
					kind = "GetHeaders"
				}
				usedRecent = true
			}
			c := c16MakeCall(kind, uint32(1+ci*100+i))
			if kind == "GetHeadersRecent" {
				for _, o := range calls {
					if o.Kind == "GetHeaders" {
						c.Seed = uint32(o.height)
					}
				}
			}
			switch a := r.Intn(100); {
			case a < 55:
				c.Action = "answer"
				c.DelayMS = []int{0, 0, 5, 20, 60}[r.Intn(5)]
			case a < 65:
				c.Action = "twice"
				c.DelayMS = r.Intn(30)
			case a < 80:
				if c16Rejectable(kind) {
					c.Action = "reject"
				} else {
					c.Action = "answer"
				}
				c.DelayMS = r.Intn(40)
			case a < 92:
				c.Action = "never"
			default:
				c.Action = "late"
				c.DelayMS = int(c16Timeout/time.Millisecond) + 80
			}
			calls = append(calls, c)
			script.byKey[c16Key(kind, c.key, c.height)] = c
		}
		zeroHeight := ci%3 == 0
		if zeroHeight {
			// height 0 is a key like any other (the answer's request height is 0 too)
			c := c16MakeCall("GetHeaders", 0)
			c.Action, c.DelayMS = []string{"answer", "answer", "twice"}[r.Intn(3)], r.Intn(30)
			calls = append(calls, c)
			script.byKey[c16Key("GetHeaders", c.key, 0)] = c
			script.noZeroHeightNoise = true
		}
		if ci%4 == 1 {
			// staggered: a call that is never answered times out while a later call of the same
			// kind (another key) is still pending and is answered after that time-out, well
			// before its own: "without disturbing other pending calls"
			for _, kind := range []string{"GetHeaders", "GetTx", "GetHeader", "GetHeaders"} {
				if r.Intn(3) == 0 {
					continue
				}
				a := c16MakeCall(kind, uint32(900000+ci*100+len(calls)))
				a.Action = "never"
				b := c16MakeCall(kind, uint32(900000+ci*100+len(calls)+1))
				b.Action, b.StartMS, b.DelayMS = "answer", 230, 200
				for _, c := range []*c16Call{a, b} {
					calls = append(calls, c)
					script.byKey[c16Key(kind, c.key, c.height)] = c
				}
			}
		}
		if stall {
			for _, c := range calls {
				c.Action, c.StartMS, c.DelayMS = "never", 0, 0
			}
			rep.Event("rounds_with_stalled_request_loop", 1)
		}
		noiseRand := rand.New(rand.NewSource(r.Int63()))
		e, err := newCEnv(cOpt{connType: connType, requestTimeout: c16Timeout, messageTimeout: 2 * time.Second,
			handshakeTO: 2 * time.Second, retryDelay: 30 * time.Millisecond, autoReady: true},
			func(vc *vconn) { script.serve(vc, noiseRand) })
		if err != nil {
			rep.Inconc(ci, "env: "+err.Error())
			continue
		}
		// wait for the handshake to complete
		ready := waitFor(3*time.Second, func() bool {
			if !e.rc.IsAccepted(vQuiet) {
				return false
			}
			if connType == ConnectionTypeFull {
				cs := e.srv.connections()
				return len(cs) > 0 && func() bool { cs[0].mu.Lock(); defer cs[0].mu.Unlock(); return cs[0].readySeq >= 0 }()
			}
			return true
		})
		if !ready {
			rep.Inconc(ci, "handshake did not complete")
			e.stop(3 * time.Second)
			continue
		}
		if stall {
			atomic.StoreInt32(&stallOnce, 1)
		}
		var wg sync.WaitGroup
		for _, c := range calls {
			wg.Add(1)
			go func(c *c16Call) {
				defer wg.Done()
				if c.StartMS > 0 {
					time.Sleep(time.Duration(c.StartMS) * time.Millisecond)
				}
				c16DoCall(e, c)
			}(c)
		}
		done := make(chan struct{})
		go func() { wg.Wait(); close(done) }()
		select {
		case <-done:
		case <-time.After(c16Timeout*3 + 5*time.Second):
			rep.Inconc(ci, "calls did not return within the watchdog")
			e.stop(3 * time.Second)
			continue
		}
		script.wg.Wait()
		atomic.StoreInt32(&stallOnce, 0)
		// second wave: keys of the first wave that were rejected or never answered are asked for
		// again (a retry); this time the server answers
		var calls2 []*c16Call
		for _, c := range calls {
			if len(calls2) < 4 && (c.Action == "reject" || c.Action == "never") && c.Kind != "GetFeeQuotes" && c.Kind != "GetHeadersRecent" {
				c2 := c16MakeCall(c.Kind, c.Seed)
				c2.Action, c2.DelayMS = "answer", []int{0, 10, 40}[r.Intn(3)]
				calls2 = append(calls2, c2)
				script.mu.Lock()
				script.byKey[c16Key(c2.Kind, c2.key, c2.height)] = c2
				script.mu.Unlock()
			}
		}
		if len(calls2) > 0 {
			var wg2 sync.WaitGroup
			for _, c := range calls2 {
				wg2.Add(1)
				go func(c *c16Call) { defer wg2.Done(); c16DoCall(e, c) }(c)
			}
			done2 := make(chan struct{})
			go func() { wg2.Wait(); close(done2) }()
			select {
			case <-done2:
			case <-time.After(c16Timeout*3 + 5*time.Second):
				rep.Inconc(ci, "second-wave calls did not return within the watchdog")
				e.stop(3 * time.Second)
				continue
			}
			script.wg.Wait()
			rep.Event("retries_after_reject_or_timeout", int64(len(calls2)))
		}
		e.stop(3 * time.Second)

		fp := map[string]int{}
		plain := true
		witness := func() interface{} {
			var w []string
			for _, c := range calls {
				w = append(w, fmt.Sprintf("%s seed=%d action=%s delay=%dms issued+%dms start=%v end=%v wrote=%v err=%s okValue=%v %s", c.Kind, c.Seed, c.Action, c.DelayMS, c.StartMS, c.start.Round(time.Millisecond), c.end.Round(time.Millisecond), c.wroteAt.Round(time.Millisecond), fmtErr(c.err), c.okValue, c.valueErr))
			}
			return map[string]interface{}{"connection_type": connType.String(), "calls": w, "unsolicited_sent": script.noise}
		}
		judge := func(calls []*c16Call) {
			for _, c := range calls {
				fp[c.Kind+"/"+c.Action]++
				if c.Action != "answer" {
					plain = false
				}
				rep.Event("calls:"+c.Kind, 1)
				rep.Event("action:"+c.Action, 1)
				elapsed := c.end - c.start
				isTimeout := c.err != nil && errors.Cause(c.err) == ErrTimeout
				switch c.Action {
				case "answer", "twice":
					if c.err == nil && c.okValue {
						continue
					}
					if c.valueErr != "" {
						rep.Finding(ci, "C16/"+c.Kind+"/wrong-response", c.valueErr, witness())
					} else if isTimeout {
						// the scripted answer was written; was there ample time to route it?
						if c.wroteAt > 0 && c.wroteAt-c.start < c16Timeout-margin {
							if verifkit.OnlyCase() >= 0 {
								rep.Finding(ci, "C16/"+c.Kind+"/answered-call-timed-out", fmt.Sprintf("%s: the server wrote the answer %v after the call started, the call still failed with Timeout after %v", c.Kind, (c.wroteAt-c.start).Round(time.Millisecond), elapsed.Round(time.Millisecond)), witness())
							} else {
								rep.Inconc(ci, c.Kind+" answered but timed out (re-run alone)")
							}
						} else {
							rep.Event("answered_late_under_load", 1)
						}
					} else {
						rep.Finding(ci, "C16/"+c.Kind+"/unexpected-error", fmtErr(c.err), witness())
					}
				case "reject":
					re, ok := errors.Cause(c.err).(RejectError)
					if ok && re.Code == RejectCode(2+c.Seed%3) && re.Description == "rej-"+c.key.String()[:12] {
						continue
					}
					if isTimeout {
						if c.wroteAt > 0 && c.wroteAt-c.start < c16Timeout-margin {
							if verifkit.OnlyCase() >= 0 {
								rep.Finding(ci, "C16/"+c.Kind+"/reject-not-delivered", "scripted reject was written in time, the call timed out", witness())
							} else {
								rep.Inconc(ci, c.Kind+" rejected but timed out (re-run alone)")
							}
						}
						continue
					}
					rep.Finding(ci, "C16/"+c.Kind+"/reject-wrong", fmt.Sprintf("scripted reject code=%d text=rej-%s surfaced as %s", 2+c.Seed%3, c.key.String()[:12], fmtErr(c.err)), witness())
				case "never", "late":
					if !isTimeout {
						rep.Finding(ci, "C16/"+c.Kind+"/unanswered-call-returned", fmt.Sprintf("call never answered within the time-out returned err=%s okValue=%v", fmtErr(c.err), c.okValue), witness())
					} else if elapsed < c16Timeout {
						rep.Finding(ci, "C16/"+c.Kind+"/timeout-too-early", fmt.Sprintf("timed out after %v, configured %v", elapsed, c16Timeout), witness())
					}
				}
			}
		}
		judge(calls)
		judge(calls2)
		rep.Case(fmt.Sprint(connType, fp), len(calls) >= 2 && !plain)
		if rep.WantSample() {
			rep.Sample(witness())
		}
	}
}

// c16Outputs: the outputs lookup built on transaction fetches.
func c16Outputs(rep *verifkit.Report, ci int, r *rand.Rand) {
	served := map[bitcoin.Hash32]*wire.MsgTx{}
	var mu sync.Mutex
	e, err := newCEnv(cOpt{connType: ConnectionTypeControl, requestTimeout: c16Timeout, messageTimeout: 2 * time.Second,
		handshakeTO: 2 * time.Second, retryDelay: 30 * time.Millisecond},
		func(vc *vconn) {
			vc.sendAccept("", nil)
			for m := range vc.in {
				if g, ok := m.Payload.(*GetTx); ok {
					mu.Lock()
					tx := served[g.TxID]
					mu.Unlock()
					if tx != nil {
						vc.send(&BaseTx{Tx: tx})
					}
				}
			}
		})
	if err != nil {
		rep.Inconc(ci, "env: "+err.Error())
		return
	}
	defer e.stop(3 * time.Second)
	if !waitFor(3*time.Second, func() bool { return e.rc.IsAccepted(vQuiet) }) {
		rep.Inconc(ci, "handshake did not complete")
		return
	}
	for q := 0; q < 12; q++ {
		ntx := 1 + r.Intn(3)
		var txs []*wire.MsgTx
		for i := 0; i < ntx; i++ {
			tx := vTx(uint32(7000000 + ci*1000 + q*10 + i))
			txs = append(txs, tx)
			mu.Lock()
			served[*tx.TxHash()] = tx
			mu.Unlock()
		}
		var ops []wire.OutPoint
		outOfRange := false
		repeated := false
		seen := map[bitcoin.Hash32]bool{}
		for i := 0; i < 1+r.Intn(6); i++ {
			tx := txs[r.Intn(len(txs))]
			idx := uint32(r.Intn(len(tx.TxOut)))
			if r.Intn(8) == 0 {
				idx = uint32(len(tx.TxOut) + r.Intn(2))
				outOfRange = true
			}
			id := *tx.TxHash()
			if seen[id] {
				repeated = true
			}
			seen[id] = true
			ops = append(ops, wire.OutPoint{Hash: id, Index: idx})
		}
		shape := "distinct-txids"
		if repeated {
			shape = "repeated-txids"
		}
		if outOfRange {
			shape += "+out-of-range"
		}
		var res []bitcoin.UTXO
		var gerr error
		var pan interface{}
		func() {
			defer func() { pan = recover() }()
			res, gerr = e.rc.GetOutputs(vQuiet, ops)
		}()
		rep.Event("getoutputs:"+shape, 1)
		rep.Case("outputs/"+shape+fmt.Sprint(len(ops)), true)
		desc := fmt.Sprintf("GetOutputs(%d outpoints, %s)", len(ops), shape)
		w := map[string]interface{}{"outpoints": fmt.Sprint(ops)}
		if pan != nil {
			rep.Finding(ci, "C16/GetOutputs/panic/"+shape, fmt.Sprintf("%s panicked: %v", desc, pan), w)
			continue
		}
		if outOfRange {
			if gerr == nil {
				rep.Finding(ci, "C16/GetOutputs/out-of-range-no-error", fmt.Sprintf("%s returned nil error (result len %d, nil=%v)", desc, len(res), res == nil), w)
			}
			continue
		}
		if gerr != nil {
			rep.Finding(ci, "C16/GetOutputs/error/"+shape, fmt.Sprintf("%s: %v", desc, gerr), w)
			continue
		}
		if len(res) != len(ops) {
			rep.Finding(ci, "C16/GetOutputs/length/"+shape, fmt.Sprintf("%s returned %d results", desc, len(res)), w)
			continue
		}
		for i, op := range ops {
			mu.Lock()
			want := served[op.Hash].TxOut[op.Index]
			mu.Unlock()
			if res[i].Value != want.Value || string(res[i].LockingScript) != string(want.LockingScript) || res[i].Hash != op.Hash || res[i].Index != op.Index {
				rep.Finding(ci, "C16/GetOutputs/wrong-output/"+shape, fmt.Sprintf("%s position %d: value %d script %x, outpoint's output has value %d script %x", desc, i, res[i].Value, []byte(res[i].LockingScript), want.Value, []byte(want.LockingScript)), w)
				break
			}
		}
	}
}
