#!/bin/bash
# tools/sweep_thorough.sh <seed> <check>... : run the thorough tier of the given checks one after
# the other (no evidence written), wall time and verdict per check in .work/thorough_sweep.txt;
# a check that runs longer than LIMIT seconds (default 2700) is stopped and marked TOO-SLOW.
cd /verif
export GOFLAGS=-mod=mod GOPROXY=off GOSUMDB=off GOTOOLCHAIN=local
seed=$1; shift
limit=${LIMIT:-2700}
for p in "$@"; do
  t0=$(date +%s)
  out=$(timeout -s KILL $limit ./vcheck $p --tier thorough --seed $seed --no-evidence 2>&1)
  rc=$?
  t1=$(date +%s)
  if [ $rc -eq 137 ]; then
    echo "$p TOO-SLOW (> ${limit}s)" >> .work/thorough_sweep.txt
    pkill -9 -f "\.work/bin/" ; sleep 1
  else
    echo "$p rc=$rc wall=$((t1-t0))s $(echo "$out" | grep -E "^$p tier=" | tail -1)" >> .work/thorough_sweep.txt
    echo "$out" | grep -E "VIOLATION|BROKEN|INCONCLUSIVE|signature:" | head -8 | cut -c1-400 | sed "s/^/   $p: /" >> .work/thorough_sweep.txt
    if [ $rc -ne 0 ]; then mkdir -p .work/sweepfail; echo "$out" > .work/sweepfail/$p-thorough.log; cp evidence/replay/$p-*.json .work/sweepfail/ 2>/dev/null; fi
  fi
done
echo DONE >> .work/thorough_sweep.txt
