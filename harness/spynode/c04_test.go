//go:build verif

package spynode

import (
	"fmt"
	"testing"

	"github.com/tokenized/pkg/bitcoin"
	"github.com/tokenized/pkg/wire"
	"github.com/tokenized/spynode/internal/verifkit"
)

// ---- C04: confirmations carry valid merkle proofs; bad-merkle blocks are never accepted ----------------

func TestVerif_C04(t *testing.T) {
	rep := verifkit.NewReport("C04")
	rep.Rule = "each case: a synced node; a block of n transactions (n in 1..40 and 63..66, so every odd row count occurs) with a generated set of relevant positions (single position, pair, random subset), each relevant tx new, already delivered unconfirmed, or delivered and then flagged unsafe by a double spend, or arriving from the trusted peer while the block is being processed; one block in five is orphaned at once and part of its transactions are mined again on the new branch (the proof must be for the block the node holds then); sent as MsgBlock or MsgParseBlock; valid cases are judged by the harness' own merkle-path verifier against the header the node holds; corrupt cases (drop i, duplicate i, insert foreign tx at i, swap i/j, alter tx i, under the unchanged header; bodies whose independently computed root still equals the header root are skipped) must leave height and callbacks unchanged. Non-trivial = every case; distinct by (n, relevant positions class, new/seen pattern, corruption)"
	rep.Assumptions = []string{"independent verifier verifkit.VerifyMerklePath / MerkleRoot (double SHA-256, odd rows duplicate the last node)", "blocks need no proof of work"}
	defer rep.Write()
	sizes := []int{}
	for n := 1; n <= 40; n++ {
		sizes = append(sizes, n)
	}
	sizes = append(sizes, 63, 64, 65, 66)
	corruptions := []string{"", "", "drop", "duplicate", "insert", "swap", "alter"}
	n := verifkit.N(2400, 120000)
	for ci := 0; ci < n; ci++ {
		if !verifkit.Mine(ci) {
			continue
		}
		ci := ci
		verifkit.RunCase(rep, ci, func() {
			r := verifkit.Rand("C04", ci)
			w, err := newTxWorld(r, verifkit.NewStore(false), 3, 1+r.Intn(3))
			if err != nil {
				rep.Inconc(ci, err.Error())
				return
			}
			size := sizes[ci%len(sizes)]
			corruption := corruptions[r.Intn(len(corruptions))]
			parse := r.Intn(2) == 0
			// relevant positions among 1..size-1 (0 is the coinbase)
			rel := map[int]bool{}
			if size > 1 {
				switch r.Intn(4) {
				case 0:
					rel[1+r.Intn(size-1)] = true
				case 1:
					rel[1+r.Intn(size-1)] = true
					rel[1+r.Intn(size-1)] = true
				case 2:
					rel[size-1] = true // the last position (duplicated node on odd rows)
				default:
					for p := 1; p < size; p++ {
						if r.Intn(4) == 0 {
							rel[p] = true
						}
					}
				}
			}
			var txs []*txInfo
			seenPattern := ""
			for p := 1; p < size; p++ {
				kind := "none"
				if rel[p] {
					kind = []string{"out-push", "in-push", "hashed-out"}[r.Intn(3)]
				}
				var h bitcoin.Hash32
				r.Read(h[:])
				op := wire.OutPoint{Hash: h, Index: 0}
				w.uni.Outs[op] = wire.NewTxOut(uint64(1000+p), verifkit.P2PKH(randB(r, 20)))
				ti := w.makeTx(kind, []wire.OutPoint{op})
				txs = append(txs, ti)
				if rel[p] && r.Intn(2) == 0 && corruption == "" {
					w.arrive(ti, "trusted-bare", true)
					seenPattern += "s"
					if r.Intn(3) == 0 {
						// a double spend of it is seen before the block: it is confirmed from the
						// unsafe state
						ds := w.makeTx([]string{"none", "out-push"}[r.Intn(2)], []wire.OutPoint{op})
						w.arrive(ds, []string{"untrusted-bare", "trusted-bare"}[r.Intn(2)], true)
						seenPattern += "u"
					}
				} else if rel[p] {
					seenPattern += "n"
				}
			}
			shape := fmt.Sprintf("n=%d/rel=%d/%s/parse=%v/%s", size, len(rel), seenPattern, parse, corruption)
			if corruption == "" {
				snap := w.e.store.Clone()
				midArrival := map[*txInfo]bool{}
				if r.Intn(4) == 0 && len(txs) > 0 {
					// the body of a transaction of this block (relevant or not) reaches the node
					// while the block is being processed: tx processor and block processor overlap
					for k := 0; k < 1+r.Intn(2); k++ {
						t := txs[r.Intn(len(txs))]
						w.midBlock = append(w.midBlock, t)
						midArrival[t] = true
					}
					w.midBlockAt = r.Intn(3)
					shape += "/mid-block-arrival"
				}
				w.mine(txs, parse)
				for _, t := range w.midBlock {
					w.arrive(t, "trusted-bare", true)
				}
				w.midBlock = nil
				reorged := false
				if r.Intn(5) == 0 && len(txs) > 0 {
					// the block is orphaned at once; the new branch confirms some of its
					// transactions again, at other positions
					var again []*txInfo
					for _, t := range txs {
						if r.Intn(3) > 0 {
							again = append(again, t)
						}
					}
					r.Shuffle(len(again), func(i, j int) { again[i], again[j] = again[j], again[i] })
					before := w.tip
					w.reorg(1, [][]*txInfo{again}, parse)
					if w.tip != before {
						// those that were not mined again are announced again, now unconfirmed
						for _, t := range txs {
							mined := false
							for _, a := range again {
								if a == t {
									mined = true
								}
							}
							if !mined && r.Intn(2) == 0 {
								w.arrive(t, c03Sources[r.Intn(5)], true)
							}
						}
						reorged = true
						shape += "/orphaned-and-mined-again"
						rep.Event("blocks_orphaned_and_transactions_mined_again", 1)
					}
				}
				if r.Intn(6) == 0 && len(rel) >= 1 {
					// crash image of an initial sync: the per-height tx records of the block reached
					// storage, the header file did not; a new node processes the block again
					shape += "/reprocessed-after-crash"
					crash := w.e.store.Clone()
					for _, k := range crash.Keys() {
						if len(k) > 15 && k[:15] == "spynode/blocks/" {
							if b, ok := snap.Get(k); ok {
								crash.Put(k, b)
							}
						}
					}
					w.judgeFrom = len(w.e.log.snapshot())
					if err := w.boot(crash); err != nil {
						rep.Inconc(ci, "reboot on crash image: "+err.Error())
						return
					}
					rep.Event("blocks_reprocessed_after_crash", 1)
				}
				w.checkC04(2)
				w.checkC03(2)
				// a seen tx must be confirmed by an update, a new one by HandleTx: exactly one each
				evs := w.e.log.snapshot()
				for _, ti := range txs {
					if !ti.relevant || w.judgeFrom > 0 || reorged {
						continue
					}
					nProof := 0
					for _, ev := range evs {
						if ev.Handler == 0 && ev.TxID == ti.id && ev.State.MerkleProof != nil {
							nProof++
							wantKind := "tx"
							if ti.processedUnconf > 0 {
								wantKind = "update"
							}
							if ev.Kind != wantKind && !midArrival[ti] { // (which of the two goroutines got there first is open for a mid-block arrival)
								w.find("C04", "C04/confirmation-wrong-notification-kind", fmt.Sprintf("%s (seen before=%v) confirmed through a %s notification", ti.name, ti.processedUnconf > 0, ev.Kind))
							}
						}
					}
					if nProof != 1 {
						w.find("C04", "C04/confirmation-count", fmt.Sprintf("%s got %d notifications with a proof for one confirmation", ti.name, nProof))
					}
				}
				rep.Event("valid_blocks", 1)
			} else {
				var ms []*wire.MsgTx
				for _, t := range txs {
					ms = append(ms, t.tx)
				}
				b := w.tree.Extend(w.tip, ms)
				body := append([]*wire.MsgTx(nil), b.Txs...)
				i, j := r.Intn(len(body)), r.Intn(len(body))
				switch corruption {
				case "drop":
					body = append(append([]*wire.MsgTx(nil), body[:i]...), body[i+1:]...)
				case "duplicate":
					body = append(append(append([]*wire.MsgTx(nil), body[:i+1]...), body[i]), body[i+1:]...)
				case "insert":
					body = append(append(append([]*wire.MsgTx(nil), body[:i]...), verifkit.Coinbase(4242, uint32(ci))), body[i:]...)
				case "swap":
					body[i], body[j] = body[j], body[i]
				case "alter":
					c := body[i].Copy()
					c.LockTime ^= 1
					body[i] = &c
				}
				if len(body) == 0 {
					rep.Event("corrupt_skipped_empty", 1)
					return
				}
				ids := make([]bitcoin.Hash32, len(body))
				for k, tx := range body {
					ids[k] = *tx.TxHash()
				}
				if verifkit.MerkleRoot(ids) == b.Header.MerkleRoot {
					rep.Event("corrupt_skipped_root_unchanged", 1)
					return
				}
				heightBefore := w.e.node.blocks.LastHeight()
				mark := len(w.e.log.snapshot())
				direct := r.Intn(2) == 0
				if direct {
					corruption += "-direct"
				}
				w.guard("corrupt block", func() {
					resp := w.e.handle(headersMsg(b))
					if len(invHashes(resp, wire.InvTypeBlock)) != 1 {
						w.find("C04", "C04/harness-block-not-requested", "announced block was not requested")
						return
					}
					if direct {
						// hand the body straight to the block processor (exported entry point)
						w.e.node.ProcessBlock(w.e.ctx, blockMsg(b.MsgWithTxs(body), parse).(wire.Block))
					} else {
						w.e.handle(blockMsg(b.MsgWithTxs(body), parse))
						for w.e.step() {
						}
					}
					w.e.procErr = nil
				})
				if h := w.e.node.blocks.LastHeight(); h != heightBefore {
					w.find("C04", "C04/bad-merkle-block-accepted/"+corruption, fmt.Sprintf("height went from %d to %d with a body whose merkle root differs from the header (%s at %d of %d txs)", heightBefore, h, corruption, i, len(b.Txs)))
				}
				for _, ev := range w.e.log.snapshot()[mark:] {
					if ev.Kind == "headers" || ev.Kind == "tx" || ev.Kind == "update" {
						w.find("C04", "C04/bad-merkle-block-callbacks/"+corruption+"/"+ev.Kind, fmt.Sprintf("a %s callback was caused by a block whose body does not hash to its header's merkle root (%s at %d of %d txs)", ev.Kind, corruption, i, len(b.Txs)))
						break
					}
				}
				rep.Event("corrupt_blocks:"+corruption, 1)
			}
			for _, f := range w.finds {
				if f.prop != "C04" {
					rep.Event("other_property_findings:"+f.sig, 1)
					continue
				}
				wit := w.witness()
				wit["shape"] = shape
				rep.Finding(ci, f.sig, f.detail+" | "+shape, wit)
			}
			rep.Case(shape, true)
			if rep.WantSample() && corruption != "" {
				rep.Sample(map[string]interface{}{"shape": shape, "callbacks": w.e.log.strings(0)})
			}
		})
	}
}
