//go:build verif

package client

import (
	"bytes"
	"encoding/hex"
	"fmt"
	"io"
	"reflect"
	"testing"

	"github.com/tokenized/spynode/internal/verifkit"
)

// ---- C15: round trip, exact consumption, framing, prefixes ----------------------------------------------

func encodeMsg(p MessagePayload) (out []byte, err error) {
	defer func() {
		if r := recover(); r != nil {
			err = fmt.Errorf("encoder panicked: %v", r)
		}
	}()
	var buf bytes.Buffer
	err = (Message{Payload: p}).Serialize(&buf)
	return buf.Bytes(), err
}

// verifDeepEq compares two values structurally, treating nil and empty slices as equal and looking
// through pointers (also into unexported fields).
func verifDeepEq(a, b reflect.Value, depth int) bool {
	if depth > 40 {
		return true
	}
	if !a.IsValid() || !b.IsValid() {
		return a.IsValid() == b.IsValid()
	}
	if a.Type() != b.Type() {
		return false
	}
	switch a.Kind() {
	case reflect.Ptr, reflect.Interface:
		if a.IsNil() || b.IsNil() {
			return a.IsNil() == b.IsNil()
		}
		return verifDeepEq(a.Elem(), b.Elem(), depth+1)
	case reflect.Slice:
		if a.Len() != b.Len() {
			return false
		}
		for i := 0; i < a.Len(); i++ {
			if !verifDeepEq(a.Index(i), b.Index(i), depth+1) {
				return false
			}
		}
		return true
	case reflect.Array:
		for i := 0; i < a.Len(); i++ {
			if !verifDeepEq(a.Index(i), b.Index(i), depth+1) {
				return false
			}
		}
		return true
	case reflect.Struct:
		if a.Type().PkgPath() == "math/big" {
			return fmt.Sprint(a) == fmt.Sprint(b)
		}
		for i := 0; i < a.NumField(); i++ {
			if !verifDeepEq(a.Field(i), b.Field(i), depth+1) {
				return false
			}
		}
		return true
	case reflect.Map:
		return a.Len() == b.Len()
	case reflect.Bool:
		return a.Bool() == b.Bool()
	case reflect.Int, reflect.Int8, reflect.Int16, reflect.Int32, reflect.Int64:
		return a.Int() == b.Int()
	case reflect.Uint, reflect.Uint8, reflect.Uint16, reflect.Uint32, reflect.Uint64, reflect.Uintptr:
		return a.Uint() == b.Uint()
	case reflect.String:
		return a.String() == b.String()
	case reflect.Float32, reflect.Float64:
		return a.Float() == b.Float()
	}
	return true
}

// types whose payload holds dependency structures with private caches: compared by re-encoding only
var c15BytesOnly = map[uint64]bool{MessageTypePostMerkleProofs: true, MessageTypeSendExpandedTx: true, MessageTypeSaveTxs: true}

func decodeOne(r io.Reader) (m *Message, err error, pan interface{}) {
	defer func() {
		if p := recover(); p != nil {
			pan = fmt.Sprintf("%v @ %s", p, verifkit.PanicFrame())
		}
	}()
	m = &Message{}
	err = m.Deserialize(r)
	return
}

func TestVerif_C15(t *testing.T) {
	rep := verifkit.NewReport("C15")
	rep.Rule = "for each of the 37 message types, generated values (boundary integers at every varint width, empty/long lists, nil vs present optional hash and merkle proof, scripts and transactions with 0..n inputs): encode, decode from a reader with trailing sentinel bytes (exact consumption), re-encode (same bytes), structural equality modulo nil/empty; every strict prefix (all of them up to 1.5 KB, 200 sampled beyond) must fail with an error; concatenations of 2..5 messages decode to the same sequence ending at EOF; type table bijection. Non-trivial = value has a non-empty list, a boundary integer or an optional field present; distinct by (type, encoding length class, optional-field pattern)"
	rep.Assumptions = []string{"PostMerkleProofs / SendExpandedTx / SaveTxs payloads (dependency types with private caches) are compared by re-encoding only", "a Tx record is representable iff len(Outputs)==len(TxIn)"}
	defer rep.Write()

	// type table
	if verifkit.Mine(0) {
		names := map[string]uint64{}
		for code, name := range MessageTypeNames {
			p := PayloadForType(code)
			if p == nil {
				rep.Finding(0, "C15/table/name-without-payload", fmt.Sprintf("code %d (%s) has a name but no payload type", code, name), nil)
				continue
			}
			if p.Type() != code {
				rep.Finding(0, "C15/table/type-mismatch", fmt.Sprintf("PayloadForType(%d).Type()=%d", code, p.Type()), nil)
			}
			if o, dup := names[name]; dup {
				rep.Finding(0, "C15/table/duplicate-name", fmt.Sprintf("name %q used by codes %d and %d", name, o, code), nil)
			}
			names[name] = code
		}
		for code := uint64(0); code < 400; code++ {
			if p := PayloadForType(code); p != nil {
				if _, ok := MessageTypeNames[code]; !ok {
					rep.Finding(0, "C15/table/payload-without-name", fmt.Sprintf("code %d has a payload type but no name", code), nil)
				}
			}
		}
		if len(MessageTypeNames) != len(VerifAllTypes) {
			rep.Note("type table has %d names, generator covers %d types", len(MessageTypeNames), len(VerifAllTypes))
		}
		rep.Event("table_entries_checked", int64(len(MessageTypeNames)))
	}

	perType := verifkit.N(300, 30000)
	ci := 0
	for _, typ := range VerifAllTypes {
		name := MessageTypeNames[typ]
		for k := 0; k < perType; k++ {
			ci++
			if !verifkit.Mine(ci) {
				continue
			}
			r := verifkit.Rand("C15/"+name, k)
			p := VerifPayload(r, typ)
			enc, err := encodeMsg(p)
			if err != nil {
				rep.Finding(ci, "C15/"+name+"/encode-error", err.Error(), nil)
				continue
			}
			witness := map[string]interface{}{"type": name, "hex": hex.EncodeToString(enc)}
			if len(enc) > 4000 {
				witness["hex"] = hex.EncodeToString(enc[:4000]) + "..."
			}
			sentinel := []byte{0xA5, 0x5A, 0xC3}
			rd := bytes.NewReader(append(append([]byte(nil), enc...), sentinel...))
			m, derr, pan := decodeOne(rd)
			rep.Event("roundtrips", 1)
			switch {
			case pan != nil:
				rep.Finding(ci, "C15/"+name+"/decode-panic", fmt.Sprint(pan), witness)
				continue
			case derr != nil:
				rep.Finding(ci, "C15/"+name+"/decode-error", derr.Error(), witness)
				continue
			}
			if rd.Len() != len(sentinel) {
				rep.Finding(ci, "C15/"+name+"/consumption", fmt.Sprintf("decoder consumed %d of %d bytes", len(enc)+len(sentinel)-rd.Len(), len(enc)), witness)
				continue
			}
			enc2, err := encodeMsg(m.Payload)
			if err != nil || !bytes.Equal(enc, enc2) {
				rep.Finding(ci, "C15/"+name+"/reencode-differs", fmt.Sprintf("re-encoding differs (err=%v, %d vs %d bytes)", err, len(enc), len(enc2)), witness)
				continue
			}
			if !c15BytesOnly[typ] && !verifDeepEq(reflect.ValueOf(p), reflect.ValueOf(m.Payload), 0) {
				rep.Finding(ci, "C15/"+name+"/value-differs", "decoded value is not structurally equal to the original", witness)
				continue
			}
			// strict prefixes
			step := 1
			if len(enc) > 1500 {
				step = len(enc) / 200
			}
			for cut := 0; cut < len(enc); cut += step {
				pm, perr, ppan := decodeOne(bytes.NewReader(enc[:cut]))
				rep.Event("prefixes_tried", 1)
				if ppan != nil {
					rep.Finding(ci, "C15/"+name+"/prefix-panic", fmt.Sprintf("prefix of %d/%d bytes: %v", cut, len(enc), ppan), witness)
					break
				}
				if perr == nil {
					pn := "?"
					if pm != nil && pm.Payload != nil {
						pn = MessageTypeNames[pm.Payload.Type()]
					}
					rep.Finding(ci, "C15/"+name+"/prefix-decodes", fmt.Sprintf("strict prefix of %d/%d bytes decodes without error (as %s)", cut, len(enc), pn), witness)
					break
				}
			}
			cls := "s"
			if len(enc) > 300 {
				cls = "l"
			}
			rep.Case(fmt.Sprintf("%s/%s/%d", name, cls, len(enc)%7), len(enc) > 12)
			if rep.WantSample() && len(enc) < 300 {
				rep.Sample(map[string]interface{}{"type": name, "hex": hex.EncodeToString(enc)})
			}
		}
	}

	// concatenations
	nc := verifkit.N(600, 60000)
	for k := 0; k < nc; k++ {
		ci++
		if !verifkit.Mine(ci) {
			continue
		}
		r := verifkit.Rand("C15/concat", k)
		cnt := 2 + r.Intn(4)
		var stream []byte
		var encs [][]byte
		var names []string
		for i := 0; i < cnt; i++ {
			typ := VerifAllTypes[r.Intn(len(VerifAllTypes))]
			enc, err := encodeMsg(VerifPayload(r, typ))
			if err != nil {
				continue
			}
			encs = append(encs, enc)
			names = append(names, MessageTypeNames[typ])
			stream = append(stream, enc...)
		}
		rd := bytes.NewReader(stream)
		ok := true
		for i, enc := range encs {
			m, err, pan := decodeOne(rd)
			if pan != nil || err != nil {
				rep.Finding(ci, "C15/concat/decode-failed", fmt.Sprintf("message %d (%s) of stream %v: err=%v panic=%v", i, names[i], names, err, pan), map[string]interface{}{"hex": hex.EncodeToString(stream)})
				ok = false
				break
			}
			enc2, _ := encodeMsg(m.Payload)
			if !bytes.Equal(enc, enc2) {
				rep.Finding(ci, "C15/concat/sequence-differs", fmt.Sprintf("message %d (%s) of stream %v decodes to another message", i, names[i], names), map[string]interface{}{"hex": hex.EncodeToString(stream)})
				ok = false
				break
			}
		}
		if ok && rd.Len() != 0 {
			rep.Finding(ci, "C15/concat/not-at-eof", fmt.Sprintf("%d bytes left after decoding stream %v", rd.Len(), names), nil)
		}
		if ok {
			if _, err, _ := decodeOne(rd); err == nil {
				rep.Finding(ci, "C15/concat/decode-past-eof", "a message decoded from an exhausted stream", nil)
			}
		}
		rep.Event("concatenations", 1)
		rep.Case("concat/"+fmt.Sprint(names), true)
	}
}
