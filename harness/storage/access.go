//go:build verif

package storage

import (
	"time"

	"github.com/tokenized/pkg/bitcoin"
)

// Overlay accessor used by the /verif monitors (not part of the repository).

type VerifUnconfirmedTx struct {
	Time    time.Time
	Unsafe  bool
	Safe    bool
	Trusted bool
}

// VerifUnconfirmed copies the unconfirmed set under its own lock.
func (repo *TxRepository) VerifUnconfirmed() map[bitcoin.Hash32]VerifUnconfirmedTx {
	repo.unconfirmedLock.Lock()
	defer repo.unconfirmedLock.Unlock()
	out := make(map[bitcoin.Hash32]VerifUnconfirmedTx, len(repo.unconfirmed))
	for k, v := range repo.unconfirmed {
		out[k] = VerifUnconfirmedTx{Time: v.time, Unsafe: v.unsafe, Safe: v.safe, Trusted: v.trusted}
	}
	return out
}
