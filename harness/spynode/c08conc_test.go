//go:build verif

package spynode

import (
	"fmt"
	"sync"
	"testing"

	"github.com/tokenized/pkg/bitcoin"
	"github.com/tokenized/pkg/wire"
	"github.com/tokenized/spynode/internal/platform/config"
	"github.com/tokenized/spynode/internal/verifkit"
	"github.com/tokenized/spynode/pkg/client"
)

// ---- C08 with two callers: subscription changes are not lost --------------------------------------------
//
// Subscribe / unsubscribe calls on distinct values commute, so whatever the interleaving of two
// callers the resulting set is known: a large batch subscription (hashing takes a while) overlaps
// a small subscribe and a small unsubscribe from another goroutine.

func c08TxPaying(h []byte) *wire.MsgTx {
	tx := wire.NewMsgTx(1)
	var prev bitcoin.Hash32
	prev[0] = 7
	tx.AddTxIn(wire.NewTxIn(wire.NewOutPoint(&prev, 0), nil))
	tx.AddTxOut(wire.NewTxOut(1000, verifkit.P2PKH(h)))
	return tx
}

func TestVerif_C08Conc(t *testing.T) {
	rep := verifkit.NewReport("C08")
	defer rep.Write()
	n := verifkit.N(48, 2000)
	for ci := 0; ci < n; ci++ {
		if !verifkit.Mine(ci) {
			continue
		}
		r := verifkit.Rand("C08/conc", ci)
		node := NewNode(config.Config{Net: bitcoin.MainNet, IsTest: true}, verifkit.NewStore(false), nil, nil)
		keep, drop, late := randB(r, 20), randB(r, 20), randB(r, 20)
		node.SubscribePushDatas(quietCtx, [][]byte{keep, drop})
		batch := make([][]byte, 1500+r.Intn(3000))
		for i := range batch {
			batch[i] = randB(r, 33) // raw data: hashed by the call
		}
		inBatch := bitcoin.Hash160(batch[r.Intn(len(batch))])
		var wg sync.WaitGroup
		wg.Add(2)
		go func() { defer wg.Done(); node.SubscribePushDatas(quietCtx, batch) }()
		go func() {
			defer wg.Done()
			for i := 0; i < r.Intn(3); i++ {
				node.IsRelevant(quietCtx, c08TxPaying(keep))
			}
			node.SubscribePushDatas(quietCtx, [][]byte{late})
			node.UnsubscribePushDatas(quietCtx, [][]byte{drop})
		}()
		wg.Wait()
		for name, want := range map[string]bool{"kept": true, "subscribed-meanwhile": true, "in-the-batch": true, "unsubscribed-meanwhile": false} {
			h := map[string][]byte{"kept": keep, "subscribed-meanwhile": late, "in-the-batch": inBatch, "unsubscribed-meanwhile": drop}[name]
			if got := node.IsRelevant(quietCtx, c08TxPaying(h)); got != want {
				rep.Finding(ci, "C08/concurrent-subscription-change-lost/"+name, fmt.Sprintf("after a batch subscription of %d values overlapped a subscribe and an unsubscribe from another goroutine, a payment to the %s value is relevant=%v, want %v", len(batch), name, got, want), nil)
			}
		}
		rep.Event("concurrent_subscription_rounds", 1)
		rep.Case(fmt.Sprintf("batch=%d", len(batch)/500), true)
		if rep.WantSample() {
			rep.Sample(map[string]interface{}{"engine": "two goroutines changing subscriptions", "batch": len(batch)})
		}
	}
}

// ---- C08: the address helpers of pkg/client subscribe every hash of an address --------------------------
//
// client.SubscribeAddress(es) turn addresses into push data subscriptions.  A multi-PKH address has
// several hashes: a payment to (a push of) any of them must be relevant afterwards, and to a hash
// of an address that was not subscribed must not.

func TestVerif_C08Address(t *testing.T) {
	rep := verifkit.NewReport("C08")
	defer rep.Write()
	n := verifkit.N(300, 20000)
	for ci := 0; ci < n; ci++ {
		if !verifkit.Mine(ci) {
			continue
		}
		r := verifkit.Rand("C08/address", ci)
		node := NewNode(config.Config{Net: bitcoin.MainNet, IsTest: true}, verifkit.NewStore(false), nil, nil)
		type addr struct {
			ra     bitcoin.RawAddress
			hashes [][]byte
			kind   string
		}
		mk := func() (addr, error) {
			if r.Intn(2) == 0 {
				h := randB(r, 20)
				ra, err := bitcoin.NewRawAddressPKH(h)
				return addr{ra, [][]byte{h}, "pkh"}, err
			}
			k := 2 + r.Intn(4)
			var hs [][]byte
			for i := 0; i < k; i++ {
				hs = append(hs, randB(r, 20))
			}
			ra, err := bitcoin.NewRawAddressMultiPKH(1+r.Intn(k), hs)
			return addr{ra, hs, fmt.Sprintf("multi-pkh-%d", k)}, err
		}
		var subscribed []addr
		for i := 0; i < 1+r.Intn(3); i++ {
			a, err := mk()
			if err != nil {
				rep.Inconc(ci, err.Error())
				break
			}
			subscribed = append(subscribed, a)
		}
		other, _ := mk()
		var err error
		shape := ""
		if len(subscribed) == 1 && r.Intn(2) == 0 {
			err = client.SubscribeAddress(quietCtx, subscribed[0].ra, node)
			shape = "SubscribeAddress/" + subscribed[0].kind
		} else {
			var ras []bitcoin.RawAddress
			for _, a := range subscribed {
				ras = append(ras, a.ra)
				shape += a.kind + ","
			}
			err = client.SubscribeAddresses(quietCtx, ras, node)
			shape = "SubscribeAddresses/" + shape
		}
		if err != nil {
			rep.Finding(ci, "C08/address/subscribe-failed", err.Error(), nil)
			continue
		}
		for _, a := range subscribed {
			for i, h := range a.hashes {
				if !node.IsRelevant(quietCtx, c08TxPaying(h)) {
					rep.Finding(ci, "C08/address/hash-of-subscribed-address-not-matched/"+a.kind, fmt.Sprintf("%s: a payment to hash %d of %d of a subscribed %s address is not relevant", shape, i+1, len(a.hashes), a.kind), nil)
				}
				rep.Event("address_hashes_judged", 1)
			}
		}
		for _, h := range other.hashes {
			if node.IsRelevant(quietCtx, c08TxPaying(h)) {
				rep.Finding(ci, "C08/address/false-match", shape+": a payment to an address that was not subscribed is relevant", nil)
			}
		}
		multi := false
		for _, a := range subscribed {
			if len(a.hashes) > 1 {
				multi = true
			}
		}
		rep.Case(shape, multi)
	}
}
