#!/bin/bash
# Applies every stored seeded change to /repo in turn, runs the quick check(s) of its property
# (plus extra checks named in meta.json "also_check"), restores /repo, and reports caught / MISSED.
cd /verif
out=/verif/.work/seed_sweep.txt; : > $out
for d in seeded/C*/; do
  id=$(basename $d); prop=${id%-*}
  extra=$(python3 -c "import json;print(' '.join(json.load(open('$d/meta.json')).get('also_check',[])))")
  res=$(tools/try_seed.sh /verif/$d/patch.diff $prop $extra 2>&1)
  if echo "$res" | grep -q "patch does not apply"; then echo "$id NOAPPLY" | tee -a $out; continue; fi
  if echo "$res" | grep -q "^VIOLATION"; then
     echo "$id caught: $(echo "$res" | grep 'signature:' | head -3 | sed 's/ *signature: //' | tr '\n' ' ')" | tee -a $out
  else echo "$id MISSED" | tee -a $out; fi
done
