//go:build verif

package client

import (
	"bytes"
	"context"
	"fmt"
	"net"
	"sync"
	"sync/atomic"
	"time"

	"github.com/tokenized/config"
	"github.com/tokenized/logger"
	"github.com/tokenized/pkg/bitcoin"
	"github.com/tokenized/pkg/wire"
)

// ---- vserver: scripted spynode service for the remote client ----------------------------------------------

var vQuiet = logger.ContextWithNoLogger(context.Background())

type vArrival struct {
	Seq     int
	At      time.Duration
	Type    uint64
	Payload MessagePayload
}

type vconn struct {
	id   int
	srv  *vserver
	c    net.Conn
	reg  *Register
	regOK bool // register signature verified under the configured client key

	mu           sync.Mutex
	arrivals     []vArrival
	acceptSentAt int // number of arrivals logged when the (correct) accept was written; -1 = never
	readySeq     int // arrival index of the Ready message; -1 = none
	closedAt     time.Duration
	wmu          sync.Mutex
	in           chan *Message // decoded messages after Register, closed on read error
}

type vserver struct {
	ln        net.Listener
	key       bitcoin.Key
	clientKey bitcoin.PublicKey
	start     time.Time
	mu        sync.Mutex
	conns     []*vconn
	onConn    func(*vconn) // runs in the connection's goroutine after Register was read
	wg        sync.WaitGroup
	closed    int32
}

func newVServer(onConn func(*vconn)) (*vserver, error) {
	ln, err := net.Listen("tcp", "127.0.0.1:0")
	if err != nil {
		return nil, err
	}
	k, err := bitcoin.GenerateKey(bitcoin.MainNet)
	if err != nil {
		return nil, err
	}
	s := &vserver{ln: ln, key: k, start: time.Now(), onConn: onConn}
	s.wg.Add(1)
	go s.acceptLoop()
	return s, nil
}

func (s *vserver) addr() string { return s.ln.Addr().String() }

func (s *vserver) acceptLoop() {
	defer s.wg.Done()
	for {
		c, err := s.ln.Accept()
		if err != nil {
			return
		}
		s.mu.Lock()
		vc := &vconn{id: len(s.conns), srv: s, c: c, acceptSentAt: -1, readySeq: -1, in: make(chan *Message, 1000)}
		s.conns = append(s.conns, vc)
		s.mu.Unlock()
		s.wg.Add(1)
		go func() {
			defer s.wg.Done()
			vc.run()
		}()
	}
}

func (s *vserver) close() {
	atomic.StoreInt32(&s.closed, 1)
	s.ln.Close()
	s.mu.Lock()
	for _, c := range s.conns {
		c.c.Close()
	}
	s.mu.Unlock()
	s.wg.Wait()
}

func (s *vserver) connections() []*vconn {
	s.mu.Lock()
	defer s.mu.Unlock()
	return append([]*vconn(nil), s.conns...)
}

func (vc *vconn) run() {
	defer vc.c.Close()
	m := &Message{}
	if err := m.Deserialize(vc.c); err != nil {
		return
	}
	reg, ok := m.Payload.(*Register)
	if !ok {
		return
	}
	vc.reg = reg
	if sh, err := reg.SigHash(); err == nil {
		vc.regOK = reg.Signature.Verify(*sh, reg.Key) && reg.Key.Equal(vc.srv.clientKey)
	}
	// reader
	vc.srv.wg.Add(1)
	go func() {
		defer vc.srv.wg.Done()
		defer close(vc.in)
		for {
			msg := &Message{}
			if err := msg.Deserialize(vc.c); err != nil {
				vc.mu.Lock()
				vc.closedAt = time.Since(vc.srv.start)
				vc.mu.Unlock()
				return
			}
			vc.mu.Lock()
			seq := len(vc.arrivals)
			vc.arrivals = append(vc.arrivals, vArrival{Seq: seq, At: time.Since(vc.srv.start), Type: msg.Payload.Type(), Payload: msg.Payload})
			if msg.Payload.Type() == MessageTypeReady && vc.readySeq < 0 {
				vc.readySeq = seq
			}
			vc.mu.Unlock()
			vc.in <- msg
		}
	}()
	if vc.srv.onConn != nil {
		vc.srv.onConn(vc)
	}
}

// send writes one payload to the client.
func (vc *vconn) send(p MessagePayload) error {
	var buf bytes.Buffer
	if err := (Message{Payload: p}).Serialize(&buf); err != nil {
		return err
	}
	vc.wmu.Lock()
	defer vc.wmu.Unlock()
	_, err := vc.c.Write(buf.Bytes())
	return err
}

// accept builds the AcceptRegister; forge selects a forgery ("" = correct).
func (vc *vconn) accept(forge string, prevHash *bitcoin.Hash32) (*AcceptRegister, error) {
	hash := vc.reg.Hash
	sessionKey, err := bitcoin.NextKey(vc.srv.key, hash)
	if err != nil {
		return nil, err
	}
	a := &AcceptRegister{Key: sessionKey.PublicKey(), PushDataCount: 3, UTXOCount: 5, MessageCount: 7}
	signKey := sessionKey
	sigHashOver := hash
	switch forge {
	case "root-key": // server's root key instead of the session key
		a.Key = vc.srv.key.PublicKey()
		signKey = vc.srv.key
	case "other-hash-key": // session key derived for another hash
		var other bitcoin.Hash32
		copy(other[:], hash[:])
		other[0] ^= 1
		k2, err := bitcoin.NextKey(vc.srv.key, other)
		if err != nil {
			return nil, err
		}
		a.Key = k2.PublicKey()
		signKey = k2
	case "other-signer": // right key field, signature by another key
		k2, _ := bitcoin.GenerateKey(bitcoin.MainNet)
		signKey = k2
	case "sig-other-hash": // signature over a different hash
		sigHashOver[5] ^= 0x10
	case "replay-previous":
		if prevHash != nil {
			k2, err := bitcoin.NextKey(vc.srv.key, *prevHash)
			if err != nil {
				return nil, err
			}
			a.Key = k2.PublicKey()
			signKey = k2
			sigHashOver = *prevHash
		}
	}
	sh, err := a.SigHash(sigHashOver)
	if err != nil {
		return nil, err
	}
	a.Signature, err = signKey.Sign(*sh)
	if err != nil {
		return nil, err
	}
	if forge == "counts-altered" { // correct signature, then counts altered
		a.MessageCount++
	}
	return a, nil
}

func (vc *vconn) sendAccept(forge string, prevHash *bitcoin.Hash32) error {
	a, err := vc.accept(forge, prevHash)
	if err != nil {
		return err
	}
	if forge == "" {
		vc.mu.Lock()
		vc.acceptSentAt = len(vc.arrivals)
		vc.mu.Unlock()
	}
	return vc.send(a)
}

func (vc *vconn) snapshot() []vArrival {
	vc.mu.Lock()
	defer vc.mu.Unlock()
	return append([]vArrival(nil), vc.arrivals...)
}

// ---- recording handler for the client side -----------------------------------------------------------------

type cEvent struct {
	Seq     int
	At      time.Duration
	Handler int
	Kind    string // tx update headers insync accept chaintip
	ID      uint64
	TxID    bitcoin.Hash32
}

type cLog struct {
	mu     sync.Mutex
	start  time.Time
	events []cEvent
}

func (l *cLog) add(e cEvent) {
	l.mu.Lock()
	e.Seq = len(l.events)
	e.At = time.Since(l.start)
	l.events = append(l.events, e)
	l.mu.Unlock()
}

func (l *cLog) snapshot() []cEvent {
	l.mu.Lock()
	defer l.mu.Unlock()
	return append([]cEvent(nil), l.events...)
}

type cRecorder struct {
	id       int
	log      *cLog
	rc       *RemoteClient
	autoReady bool          // call Ready(NextMessageID()) on every AcceptRegister (handler 0 only, full connections only: on a control connection the handshake ends with the accept, and Ready writes to the socket directly, next to the sender goroutine)
	readyOwn  bool          // ...but derive the id from the handler's own progress (last delivered + 1)
	readyBack uint64        // ...minus this many (the application lost its newest records), at least 1
	lastID    uint64
	delayNS  int64 // sleep in HandleTx/HandleTxUpdate (slow handler), atomic
	readyErr []error
}

func (r *cRecorder) HandleTx(ctx context.Context, tx *Tx) {
	if d := atomic.LoadInt64(&r.delayNS); d > 0 {
		time.Sleep(time.Duration(d))
	}
	atomic.StoreUint64(&r.lastID, tx.ID)
	r.log.add(cEvent{Handler: r.id, Kind: "tx", ID: tx.ID, TxID: *tx.Tx.TxHash()})
}
func (r *cRecorder) HandleTxUpdate(ctx context.Context, u *TxUpdate) {
	if d := atomic.LoadInt64(&r.delayNS); d > 0 {
		time.Sleep(time.Duration(d))
	}
	atomic.StoreUint64(&r.lastID, u.ID)
	r.log.add(cEvent{Handler: r.id, Kind: "update", ID: u.ID, TxID: u.TxID})
}
func (r *cRecorder) HandleHeaders(ctx context.Context, h *Headers) {
	r.log.add(cEvent{Handler: r.id, Kind: "headers", ID: uint64(h.StartHeight)})
}
func (r *cRecorder) HandleInSync(ctx context.Context) { r.log.add(cEvent{Handler: r.id, Kind: "insync"}) }
func (r *cRecorder) HandleMessage(ctx context.Context, p MessagePayload) {
	switch p.(type) {
	case *AcceptRegister:
		r.log.add(cEvent{Handler: r.id, Kind: "accept"})
		if r.autoReady && r.rc != nil {
			next := r.rc.NextMessageID()
			if r.readyOwn {
				next = atomic.LoadUint64(&r.lastID) + 1
				if back := atomic.LoadUint64(&r.readyBack); back > 0 && atomic.LoadUint64(&r.lastID) > 0 {
					if next > back {
						next -= back
					} else {
						next = 1
					}
				}
			}
			r.log.add(cEvent{Handler: r.id, Kind: "ready", ID: next})
			if err := r.rc.Ready(ctx, next); err != nil {
				r.readyErr = append(r.readyErr, err)
			}
		}
	case *ChainTip:
		r.log.add(cEvent{Handler: r.id, Kind: "chaintip"})
	}
}

// ---- client under test ---------------------------------------------------------------------------------------

type cEnv struct {
	srv       *vserver
	rc        *RemoteClient
	log       *cLog
	recs      []*cRecorder
	interrupt chan interface{}
	done      chan error
	clientKey bitcoin.Key
}

type cOpt struct {
	connType       ConnectionType
	requestTimeout time.Duration
	messageTimeout time.Duration
	handshakeTO    time.Duration
	retryDelay     time.Duration
	handlers       int
	autoReady      bool
	readyOwn       bool
	readyBack      uint64
	handlerDelay   time.Duration
}

func newCEnv(opt cOpt, onConn func(*vconn)) (*cEnv, error) {
	srv, err := newVServer(onConn)
	if err != nil {
		return nil, err
	}
	ck, err := bitcoin.GenerateKey(bitcoin.MainNet)
	if err != nil {
		return nil, err
	}
	srv.clientKey = ck.PublicKey()
	cfg := NewConfig(srv.addr(), srv.key.PublicKey(), ck, 0, opt.connType)
	cfg.RequestTimeout = config.NewDuration(opt.requestTimeout)
	cfg.MessageChannelTimeout = config.NewDuration(opt.messageTimeout)
	cfg.HandshakeTimeout = config.NewDuration(opt.handshakeTO)
	cfg.RetryDelay = config.NewDuration(opt.retryDelay)
	cfg.DialTimeout = config.NewDuration(time.Second)
	cfg.MaxRetries = 1000
	rc, err := NewRemoteClient(cfg)
	if err != nil {
		srv.close()
		return nil, err
	}
	e := &cEnv{srv: srv, rc: rc, log: &cLog{start: srv.start}, interrupt: make(chan interface{}), done: make(chan error, 1), clientKey: ck}
	n := opt.handlers
	if n == 0 {
		n = 2
	}
	for i := 0; i < n; i++ {
		r := &cRecorder{id: i, log: e.log, rc: rc, autoReady: opt.autoReady && i == 0 && opt.connType == ConnectionTypeFull, readyOwn: opt.readyOwn, readyBack: opt.readyBack, delayNS: int64(opt.handlerDelay)}
		e.recs = append(e.recs, r)
		rc.RegisterHandler(r)
	}
	go func() { e.done <- rc.Run(vQuiet, e.interrupt) }()
	return e, nil
}

// stop interrupts the client and waits for Run to return; returns Run's error and whether it returned.
func (e *cEnv) stop(wait time.Duration) (error, bool) {
	select {
	case err := <-e.done:
		e.srv.close()
		return err, true
	default:
	}
	close(e.interrupt)
	select {
	case err := <-e.done:
		e.srv.close()
		return err, true
	case <-time.After(wait):
		e.srv.close()
		return nil, false
	}
}

func waitFor(d time.Duration, cond func() bool) bool {
	deadline := time.Now().Add(d)
	for time.Now().Before(deadline) {
		if cond() {
			return true
		}
		time.Sleep(2 * time.Millisecond)
	}
	return cond()
}

func vTx(seed uint32) *wire.MsgTx {
	tx := wire.NewMsgTx(1)
	var h bitcoin.Hash32
	h[0], h[1], h[2], h[3] = byte(seed), byte(seed>>8), byte(seed>>16), 0x99
	tx.AddTxIn(wire.NewTxIn(&wire.OutPoint{Hash: h, Index: seed % 3}, []byte{2, byte(seed), byte(seed >> 8)}))
	for i := uint32(0); i < 1+seed%3; i++ {
		tx.AddTxOut(wire.NewTxOut(uint64(1000+seed*10+i), []byte{0x51, byte(i), byte(seed)}))
	}
	tx.LockTime = seed
	return tx
}

func vHeader(seed uint32) wire.BlockHeader {
	var p bitcoin.Hash32
	p[0], p[1] = byte(seed), byte(seed>>8)
	return wire.BlockHeader{Version: 1, PrevBlock: p, Timestamp: 1700000000 + seed, Nonce: seed}
}

func fmtErr(err error) string {
	if err == nil {
		return "nil"
	}
	return fmt.Sprintf("%T:%v", err, err)
}
