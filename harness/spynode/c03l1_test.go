//go:build verif

package spynode

import (
	"bytes"
	"fmt"
	"testing"
	"time"

	"github.com/tokenized/pkg/bitcoin"
	"github.com/tokenized/pkg/wire"
	"github.com/tokenized/spynode/internal/verifkit"
)

// ---- C03 (and C04's proof rule) on the L1 engine ------------------------------------------------------
//
// DD delivers transactions and blocks step by step; here the real incoming goroutine, the real
// tx processor and the real block processor run concurrently: transactions are announced, sent
// bare and mined into blocks at the same time, and a reorganisation orphans a block that confirmed
// some of them.

type l1Tx struct {
	name     string
	tx       *wire.MsgTx
	id       bitcoin.Hash32
	relevant bool
	how      string // inv bare block-only
	orphaned int
	mined    int
}

func TestVerif_C03L1(t *testing.T) {
	rep := verifkit.NewReport("C03")
	defer rep.Write()
	n := verifkit.N(32, 800)
	for ci := 0; ci < n; ci++ {
		if !verifkit.Mine(ci) {
			continue
		}
		r := verifkit.Rand("C03/L1", ci)
		tree := verifkit.NewTree()
		initial := 6 + r.Intn(6)
		tip := tree.ExtendN(tree.Genesis, initial)
		peer, err := newTCPPeer(tree, tip)
		if err != nil {
			rep.Inconc(ci, err.Error())
			continue
		}
		uni := verifkit.NewUniverse(r, 12)
		sub := randB(r, 20)
		store := verifkit.NewStore(r.Intn(2) == 0)
		log := newEventLog()
		e := newL1(peer, peer.addr(), store, tip.Ancestor(1+r.Intn(3)).Hash, [][]byte{sub}, uni, log)
		e.run()
		inSync := func() bool {
			peer.mu.Lock()
			target := peer.sim.tip
			peer.mu.Unlock()
			ok, _ := l1ChainEqual(e, target)
			return ok && e.node.state.IsReady()
		}
		// like the DS settle: if the node is not there yet, its request time-outs get to fire
		// (a headers reply that only repeats known headers leaves the request pending)
		settle := func() bool {
			for round := 0; round < 4; round++ {
				if waitCond(4*time.Second, inSync) {
					return true
				}
				if round < 3 {
					e.node.state.VerifAge(11 * time.Minute)
					time.Sleep(5500 * time.Millisecond)
				}
			}
			return false
		}
		if !settle() {
			wl := peer.wireLog()
			tail := []string{}
			if len(wl) > 0 {
				tail = wl[len(wl)-1]
				if len(tail) > 12 {
					tail = tail[len(tail)-12:]
				}
			}
			rep.Inconc(ci, fmt.Sprintf("node did not get in sync: height %d of %d ready=%v conns=%d wire tail %v", e.node.blocks.LastHeight(), tip.Height, e.node.state.IsReady(), len(wl), tail))
			e.stop(12 * time.Second)
			peer.shutdown()
			continue
		}
		sendAll := func(m wire.Message) {
			peer.mu.Lock()
			conns := append([]*tcpConn(nil), peer.conns...)
			peer.mu.Unlock()
			if len(conns) > 0 {
				conns[len(conns)-1].write(m)
			}
		}
		var txs []*l1Tx
		ntx := 3 + r.Intn(8)
		for i := 0; i < ntx; i++ {
			rel := r.Intn(3) > 0
			out := verifkit.P2PKH(randB(r, 20))
			if rel {
				out = verifkit.P2PKH(sub)
			}
			tx := uni.Build(r, verifkit.TxSpec{Inputs: []wire.OutPoint{uni.Order[i%len(uni.Order)]}, Outputs: [][]byte{out}})
			lt := &l1Tx{name: fmt.Sprintf("t%d", i), tx: tx, id: *tx.TxHash(), relevant: rel, how: []string{"inv", "bare", "block-only", "inv"}[r.Intn(4)]}
			txs = append(txs, lt)
			peer.mu.Lock()
			peer.sim.txByID[lt.id] = tx
			peer.mu.Unlock()
		}
		fp := ""
		// phase 1: announcements, bare transactions and blocks at the same time
		pendingForBlock := append([]*l1Tx(nil), txs...)
		var lastBlockTxs []*l1Tx
		for len(pendingForBlock) > 0 {
			k := 1 + r.Intn(3)
			if k > len(pendingForBlock) {
				k = len(pendingForBlock)
			}
			batch := pendingForBlock[:k]
			pendingForBlock = pendingForBlock[k:]
			for _, lt := range batch {
				switch lt.how {
				case "inv":
					inv := wire.NewMsgInv()
					inv.AddInvVect(wire.NewInvVect(wire.InvTypeTx, &lt.id))
					sendAll(inv)
				case "bare":
					sendAll(lt.tx)
				}
				fp += lt.how[:2]
			}
			if r.Intn(3) > 0 {
				time.Sleep(time.Duration(r.Intn(25)) * time.Millisecond)
			}
			// mine them (immediately: the block races the transactions through the node)
			var ms []*wire.MsgTx
			for _, lt := range batch {
				ms = append(ms, lt.tx)
				lt.mined++
			}
			peer.mu.Lock()
			nb := tree.Extend(peer.sim.tip, ms)
			peer.sim.tip = nb
			peer.mu.Unlock()
			lastBlockTxs = batch
			fp += "B"
			if r.Intn(2) == 0 {
				waitCond(3*time.Second, inSync)
			}
		}
		settle()
		// phase 2: the last block is orphaned; its transactions are mined again on the new branch
		if r.Intn(2) == 0 {
			var ms []*wire.MsgTx
			for _, lt := range lastBlockTxs {
				ms = append(ms, lt.tx)
				lt.orphaned++
				lt.mined++
			}
			peer.mu.Lock()
			base := peer.sim.tip.Parent
			nb := tree.Extend(base, nil)
			nb = tree.Extend(nb, ms)
			peer.sim.tip = nb
			peer.mu.Unlock()
			fp += "R"
		}
		converged := settle()
		time.Sleep(150 * time.Millisecond)
		stopped, _ := e.stop(15 * time.Second)
		peer.shutdown()
		if !stopped {
			rep.Inconc(ci, "Stop did not return (C19 matter)")
			continue
		}
		if !converged {
			rep.Inconc(ci, "node did not converge at the end (C01 matter)")
			continue
		}
		evs := log.snapshot()
		find := func(sig, detail string) {
			rep.Finding(ci, sig, detail+" | history "+fp, map[string]interface{}{"history": fp, "callbacks": log.strings(0), "wire": peer.wireLog()})
		}
		for _, lt := range txs {
			for h := 0; h < 2; h++ {
				nNew, nProof := 0, 0
				for _, ev := range evs {
					if ev.Handler != h || ev.TxID != lt.id {
						continue
					}
					if ev.Kind == "tx" {
						nNew++
						want := uni.Spent(lt.tx)
						if len(ev.Tx.Outputs) != len(want) {
							find("C03/L1/spent-outputs-count", fmt.Sprintf("%s delivered with %d spent outputs for %d inputs", lt.name, len(ev.Tx.Outputs), len(want)))
						} else {
							for i := range want {
								if ev.Tx.Outputs[i] == nil || ev.Tx.Outputs[i].Value != want[i].Value || !bytes.Equal(ev.Tx.Outputs[i].LockingScript, want[i].LockingScript) {
									find("C03/L1/spent-output-wrong", fmt.Sprintf("%s input %d: delivered spent output differs from the output it spends", lt.name, i))
								}
							}
						}
					}
					if mp := ev.State.MerkleProof; mp != nil {
						nProof++
						b := tree.Get(*mp.BlockHeader.BlockHash())
						if b == nil {
							find("C03/L1/proof-for-unknown-block", lt.name)
							continue
						}
						idx := -1
						for i, btx := range b.Txs {
							if *btx.TxHash() == lt.id {
								idx = i
							}
						}
						if idx < 0 || int(mp.Index) != idx || verifkit.VerifyMerklePath(lt.id, mp.Index, mp.Path, mp.DuplicatedIndexes) != b.Header.MerkleRoot {
							find("C03/L1/proof-does-not-verify", fmt.Sprintf("%s: proof (index %d) does not verify against block %d", lt.name, mp.Index, b.Height))
						}
					}
				}
				switch {
				case !lt.relevant && nNew+nProof > 0:
					find("C03/L1/irrelevant-delivered", fmt.Sprintf("%s matches no subscription and was delivered to handler %d", lt.name, h))
				case lt.relevant && nNew == 0:
					find("C03/L1/relevant-not-delivered/"+lt.how, fmt.Sprintf("%s (%s, mined %d times) never reached handler %d as a new transaction", lt.name, lt.how, lt.mined, h))
				case lt.relevant && nNew > 1+lt.orphaned:
					find("C03/L1/delivered-twice/"+lt.how, fmt.Sprintf("%s delivered as new %d times to handler %d (its block was orphaned %d times)", lt.name, nNew, h, lt.orphaned))
				case lt.relevant && nProof == 0:
					find("C03/L1/confirmation-without-proof/"+lt.how, fmt.Sprintf("%s was mined %d times and no notification with a proof reached handler %d", lt.name, lt.mined, h))
				}
			}
			rep.Event("l1_transactions_judged", 1)
		}
		rep.Event("l1_scenarios", 1)
		rep.Case("L1/"+fp, len(fp) > 3)
		if rep.WantSample() {
			rep.Sample(map[string]interface{}{"engine": "L1", "history": fp, "transactions": ntx})
		}
	}
}
