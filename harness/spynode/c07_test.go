//go:build verif

package spynode

import (
	"context"
	"fmt"
	"math/rand"
	"sync"
	"testing"
	"time"

	"github.com/tokenized/pkg/bitcoin"
	"github.com/tokenized/pkg/wire"
	"github.com/tokenized/spynode/internal/verifhook"
	"github.com/tokenized/spynode/internal/verifkit"
)

// ---- C07: safe only when warranted, once, never after unsafe ---------------------------------------------
//
// The real checkTxDelays goroutine runs (SafeTxDelay 300 ms) against a node that the harness
// drives directly; the hook node.safe.fetched widens the window between the checker's fetch and
// save, and the harness fires the conflicting arrival inside it.

const c07DelayMS = 300

type c07Env struct {
	w        *txWorld
	wg       sync.WaitGroup
	first    map[*txInfo]time.Duration // harness time (log clock) just before the first arrival
	vouched  map[*txInfo]time.Duration // harness time just before the first trusted arrival
	restarts int
	lifeSpansRestart map[*txInfo]bool
	conflictKnown    map[*txInfo]time.Duration // harness time after a conflicting tx had been processed by the node
}

func (c *c07Env) startChecker() {
	n := c.w.e.node
	c.wg.Add(1)
	go func() {
		defer c.wg.Done()
		n.checkTxDelays(c.w.e.ctx)
	}()
}

func (c *c07Env) stopChecker() {
	c.w.e.node.requestStop(c.w.e.ctx)
	c.wg.Wait()
}

func (c *c07Env) now() time.Duration { return time.Since(c.w.e.log.start) }

func (c *c07Env) arrive(t *txInfo, src string) {
	if _, ok := c.first[t]; !ok {
		c.first[t] = c.now()
	}
	if src == "trusted-inv" || src == "trusted-bare" {
		if _, ok := c.vouched[t]; !ok {
			c.vouched[t] = c.now()
		}
	}
	c.w.arrive(t, src, true)
}

func TestVerif_C07(t *testing.T) {
	c07Body(verifkit.NewReport("C07"), verifkit.N(48, 800), func(sig string) (string, bool) { return sig, true })
}

// C05 with the real delay checker running: "neither is subsequently reported safe".
func TestVerif_C05Delay(t *testing.T) {
	c07Body(verifkit.NewReport("C05"), verifkit.N(32, 500), func(sig string) (string, bool) {
		switch {
		case len(sig) >= 21 && sig[:21] == "C07/safe-after-unsafe":
			return "C05/delay-checker/safe-after-unsafe" + sig[21:], true
		case len(sig) >= 19 && sig[:19] == "C07/safe-and-unsafe":
			return "C05/delay-checker/safe-and-unsafe" + sig[19:], true
		}
		return "", false
	})
}

// C12 with the real delay checker: a transaction only untrusted peers sent is never reported safe.
func TestVerif_C12Delay(t *testing.T) {
	c07Body(verifkit.NewReport("C12"), verifkit.N(32, 500), func(sig string) (string, bool) {
		if sig == "C07/safe-without-trusted-vouching" {
			return "C12/delay-checker/untrusted-tx-reported-safe", true
		}
		return "", false
	})
}

func c07Body(rep *verifkit.Report, n int, mapSig func(string) (string, bool)) {
	rep.Rule = "each scenario: a synced node with SafeTxDelay=300 ms and the real checkTxDelays goroutine; 3-6 transactions over 4 outpoints arrive from generated sources (untrusted first, trusted later, trusted only, local), conflicting arrivals are placed before the expiry, inside the checker's fetch->save window (hook node.safe.fetched holds it open for 40 ms and signals the harness) and after it; confirmations race the checker; a double spend is confirmed while the node catches up after a dropped connection; clean restarts before/after the safe report. Per-txid notification trajectories of both handlers are judged (never safe&unsafe, cancelled=>unsafe, no safe after unsafe, unconfirmed safe only if the trusted peer had sent inv/tx, not before first_send+delay, at most once; bounded liveness: within 20 checker iterations counted at hook node.safe.iteration). Non-trivial = a conflict or a restart or an untrusted-first arrival; distinct by step-shape string"
	rep.Assumptions = []string{"age is measured from the harness' clock just before the first send, which over-approximates the node's own first-seen time: measured < delay is a definite violation", "liveness is counted in checker iterations (hook), the wall-clock watchdog only yields inconclusive", "transactions whose life spans a restart carry no liveness obligation"}
	defer rep.Write()

	fetched := make(chan struct{}, 1)
	var widen bool
	var wmu sync.Mutex
	verifhook.Set("node.safe.fetched", func(ctx context.Context, site string) {
		wmu.Lock()
		wd := widen
		wmu.Unlock()
		if wd {
			select {
			case fetched <- struct{}{}:
			default:
			}
			time.Sleep(40 * time.Millisecond)
		}
	})
	defer verifhook.Set("node.safe.fetched", nil)

	for ci := 0; ci < n; ci++ {
		if !verifkit.Mine(ci) {
			continue
		}
		r := verifkit.Rand("C07", ci)
		w := &txWorld{r: r, tree: verifkit.NewTree(), uni: verifkit.NewUniverse(r, 8), byID: map[bitcoin.Hash32]*txInfo{}, start: 1, blocksProcessed: map[bitcoin.Hash32]bool{}, safeDelayMS: c07DelayMS}
		for i := 0; i < 3; i++ {
			w.subs = append(w.subs, randB(r, 20))
			w.pubkeys = append(w.pubkeys, randB(r, 33))
		}
		w.tip = w.tree.ExtendN(w.tree.Genesis, 3)
		if err := w.boot(verifkit.NewStore(false)); err != nil {
			rep.Inconc(ci, err.Error())
			continue
		}
		c := &c07Env{w: w, first: map[*txInfo]time.Duration{}, vouched: map[*txInfo]time.Duration{}, lifeSpansRestart: map[*txInfo]bool{}, conflictKnown: map[*txInfo]time.Duration{}}
		c.startChecker()
		ops := w.uni.Order[:4]
		fp := ""
		wmu.Lock()
		widen = r.Intn(2) == 0
		wmu.Unlock()
		select {
		case <-fetched:
		default:
		}
		// base transactions, each on its own outpoint(s)
		var base []*txInfo
		for i := 0; i < 2+r.Intn(3); i++ {
			base = append(base, w.makeTx([]string{"out-push", "in-push", "out-push", "none"}[r.Intn(4)], []wire.OutPoint{ops[i%4]}))
		}
		conflicted := map[*txInfo]bool{}
		confirmedEarly := map[*txInfo]bool{}
		for _, t := range base {
			switch r.Intn(4) {
			case 0:
				c.arrive(t, "untrusted-bare")
				fp += "u"
				if r.Intn(2) == 0 {
					time.Sleep(time.Duration(r.Intn(400)) * time.Millisecond)
					c.arrive(t, "trusted-inv")
					fp += "v"
				}
			case 1:
				c.arrive(t, "local")
				fp += "l"
			default:
				c.arrive(t, []string{"trusted-inv", "trusted-bare"}[r.Intn(2)])
				fp += "t"
			}
		}
		// conflicts / confirmations / restarts at chosen moments
		for _, t := range base {
			switch k := r.Intn(10); {
			case k < 4: // a conflicting transaction
				x := w.makeTx([]string{"out-push", "none"}[r.Intn(2)], []wire.OutPoint{t.spends[0]})
				when := r.Intn(3)
				switch when {
				case 0: // before the expiry
					time.Sleep(time.Duration(r.Intn(150)) * time.Millisecond)
					fp += "Xb"
				case 1: // inside the checker's fetch->save window, if it opens
					select {
					case <-fetched:
						fp += "Xw"
						// the checker holds one transaction between fetch and save: which one is
						// not visible here, so every still unconflicted base transaction gets its
						// conflict now
						var inBlock []*txInfo
						viaBlock := r.Intn(2) == 0
						for _, o := range base {
							if o != t && !conflicted[o] && len(o.confirmedAt) == 0 {
								ox := w.makeTx("none", []wire.OutPoint{o.spends[0]})
								if viaBlock {
									inBlock = append(inBlock, ox)
								} else {
									c.arrive(ox, "untrusted-bare")
									c.conflictKnown[o] = c.now()
								}
								conflicted[o] = true
								conflicted[ox] = true
							}
						}
						if viaBlock {
							// the conflicting transactions are confirmed by a block (cancel path)
							x2 := w.makeTx("none", []wire.OutPoint{t.spends[0]})
							inBlock = append(inBlock, x2)
							w.mine(inBlock, true)
							for _, o := range base {
								if conflicted[o] {
									c.conflictKnown[o] = c.now()
								}
							}
							conflicted[t] = true
							conflicted[x2] = true
							fp += "K"
							continue
						}
					case <-time.After(time.Duration(c07DelayMS+250) * time.Millisecond):
						fp += "Xn"
					}
				default: // after the expiry
					time.Sleep(time.Duration(c07DelayMS+150+r.Intn(100)) * time.Millisecond)
					fp += "Xa"
				}
				// (also submitted locally: a local submission counts as safe on its own, but not
				// when it spends what another known transaction spends)
				c.arrive(x, []string{"trusted-bare", "untrusted-bare", "local"}[r.Intn(3)])
				if (t.relevant || !c.lifeSpansRestart[t]) && !conflicted[t] && len(t.confirmedAt) == 0 {
					// (... and only while t is itself still unconfirmed and uncancelled: a spend of
					// an outpoint that a confirmed transaction spent is not double-spend tracking's
					// subject any more)
					// (an irrelevant transaction seen before a restart is not remembered across it:
					// nothing says the mempool of unrelated transactions must be persisted)
					c.conflictKnown[x] = c.now()
				}
				c.conflictKnown[t] = c.now()
				conflicted[t] = true
				conflicted[x] = true
			case k < 6: // confirmation racing the checker
				time.Sleep(time.Duration(r.Intn(c07DelayMS+100)) * time.Millisecond)
				if len(t.confirmedAt) == 0 && !conflicted[t] {
					w.mine([]*txInfo{t}, true)
					if c.now() < c.first[t]+time.Duration(c07DelayMS+2200)*time.Millisecond {
						confirmedEarly[t] = true
					}
					fp += "B"
				}
			case k < 8: // clean restart
				time.Sleep(time.Duration(r.Intn(c07DelayMS+200)) * time.Millisecond)
				c.stopChecker()
				for tt := range c.first {
					c.lifeSpansRestart[tt] = true
				}
				if err := w.restart(); err != nil {
					w.find("C11", "C11/restart-failed", err.Error())
					break
				}
				c.restarts++
				c.startChecker()
				fp += "S"
			case k < 9: // the trusted connection drops; its double spend is confirmed while the node catches up
				if len(t.confirmedAt) == 0 && !conflicted[t] {
					time.Sleep(time.Duration(r.Intn(150)) * time.Millisecond)
					w.dropConnection()
					d := w.makeTx("none", []wire.OutPoint{t.spends[0]})
					w.mine([]*txInfo{d}, true)
					w.finishSync()
					c.conflictKnown[t] = c.now()
					conflicted[t] = true
					conflicted[d] = true
					fp += "Dk"
				}
			default:
				time.Sleep(time.Duration(r.Intn(200)) * time.Millisecond)
			}
		}
		// let every transaction pass its delay, then give the checker 20 iterations
		var latest time.Duration
		for _, f := range c.first {
			if f > latest {
				latest = f
			}
		}
		if d := latest + time.Duration(c07DelayMS)*time.Millisecond - c.now(); d > 0 {
			time.Sleep(d)
		}
		h0 := verifhook.Hits("node.safe.iteration")
		deadline := time.Now().Add(12 * time.Second)
		for verifhook.Hits("node.safe.iteration") < h0+22 && time.Now().Before(deadline) {
			time.Sleep(20 * time.Millisecond)
		}
		itersOK := verifhook.Hits("node.safe.iteration") >= h0+22
		c.stopChecker()

		// ---- judge the trajectories
		evs := w.e.log.snapshot()
		for h := 0; h < 2; h++ {
			for _, ti := range w.txs {
				sawUnsafe, safeCount := false, 0
				gotSafe := false
				for _, ev := range evs {
					if ev.Handler != h || ev.TxID != ti.id || (ev.Kind != "tx" && ev.Kind != "update") {
						continue
					}
					st := ev.State
					if st.Safe && st.UnSafe {
						w.find("C07", "C07/safe-and-unsafe/"+ev.Kind, fmt.Sprintf("%s: notification with safe and unsafe both set", ti.name))
					}
					if st.Cancelled && !st.UnSafe {
						w.find("C07", "C07/cancelled-not-unsafe", fmt.Sprintf("%s: cancelled without unsafe", ti.name))
					}
					if st.Safe && sawUnsafe {
						shape := "unconfirmed"
						if st.MerkleProof != nil {
							shape = "confirmation"
						}
						w.find("C07", "C07/safe-after-unsafe/"+shape, fmt.Sprintf("%s: reported safe after it had been reported unsafe (handler %d)", ti.name, h))
					}
					if st.UnSafe || st.Cancelled {
						sawUnsafe = true
					}
					if st.Safe && st.MerkleProof == nil {
						safeCount++
						gotSafe = true
						if known, ok := c.conflictKnown[ti]; ok && ev.At > known && !ti.local {
							w.find("C07", "C07/safe-despite-known-conflict", fmt.Sprintf("%s: reported safe at %v although a transaction spending one of its outpoints had been processed by the node at %v", ti.name, ev.At.Round(time.Millisecond), known.Round(time.Millisecond)))
						}
						if !ti.local {
							v, vouched := c.vouched[ti]
							if !vouched || v > ev.At {
								w.find("C07", "C07/safe-without-trusted-vouching", fmt.Sprintf("%s: reported safe at %v although the trusted peer had not announced or sent it", ti.name, ev.At.Round(time.Millisecond)))
							}
							if ev.At-c.first[ti] < time.Duration(c07DelayMS)*time.Millisecond {
								w.find("C07", "C07/safe-before-delay", fmt.Sprintf("%s: reported safe %v after it was first sent to the node, configured delay %d ms", ti.name, (ev.At - c.first[ti]).Round(time.Millisecond), c07DelayMS))
							}
						}
					}
				}
				if safeCount > 1 {
					shape := "same-run"
					if c.restarts > 0 {
						shape = "across-restart"
					}
					w.find("C07", "C07/safe-reported-twice/"+shape, fmt.Sprintf("%s: %d unconfirmed safe notifications on handler %d", ti.name, safeCount, h))
				}
				// bounded liveness
				_, vouched := c.vouched[ti]
				if h == 0 && ti.relevant && !ti.local && vouched && !conflicted[ti] && !confirmedEarly[ti] && len(ti.confirmedAt) == 0 && !c.lifeSpansRestart[ti] && ti.processedUnconf > 0 && !gotSafe {
					if itersOK {
						w.find("C07", "C07/safe-not-reported-in-bounded-time", fmt.Sprintf("%s: vouched by the trusted peer, unconflicted, unconfirmed, node in sync, but not reported safe within 20 checker iterations after first_send+delay", ti.name))
					} else {
						rep.Inconc(ci, "checker iterations not observed (hook node.safe.iteration)")
					}
				}
			}
		}
		for _, f := range w.finds {
			if f.prop != "C07" {
				rep.Event("other_property_findings:"+f.sig, 1)
				continue
			}
			sig, ok := mapSig(f.sig)
			if !ok {
				rep.Event("other_property_findings:"+f.sig, 1)
				continue
			}
			wit := w.witness()
			wit["shape"] = fp
			rep.Finding(ci, sig, f.detail+" | "+fp, wit)
		}
		rep.Event("scenarios", 1)
		rep.Event("transactions", int64(len(w.txs)))
		safeN := 0
		for _, ev := range evs {
			if ev.Handler == 0 && ev.State.Safe && ev.State.MerkleProof == nil && (ev.Kind == "tx" || ev.Kind == "update") {
				safeN++
			}
		}
		rep.Event("unconfirmed_safe_reports_seen", int64(safeN))
		rep.Event("checker_iterations_observed", verifhook.Hits("node.safe.iteration")-0)
		rep.Event("fetch_save_windows_hit", int64(countStr(fp, "Xw")))
		rep.Case(fp, containsAny(fp, "XSuv"))
		if rep.WantSample() {
			wit := w.witness()
			wit["shape"] = fp
			rep.Sample(wit)
		}
	}
}

func countStr(s, sub string) int {
	n := 0
	for i := 0; i+len(sub) <= len(s); i++ {
		if s[i:i+len(sub)] == sub {
			n++
		}
	}
	return n
}

var _ = rand.Intn
