//go:build verif

package spynode

import (
	"fmt"
	"net"
	"sync"
	"sync/atomic"
	"time"

	"github.com/tokenized/pkg/bitcoin"
	"github.com/tokenized/pkg/wire"
	"github.com/tokenized/spynode/internal/platform/config"
	"github.com/tokenized/spynode/internal/verifkit"
)

// ---- L1: the real Node.Run against a scripted Bitcoin peer over loopback TCP -------------------------

var l1Magic = wire.BitcoinNet(bitcoin.MainNet)

type tcpPeer struct {
	mu     sync.Mutex
	sim    *simPeer
	ln     net.Listener
	conns  []*tcpConn
	closed int32
	wg     sync.WaitGroup

	// behaviour switches (under mu)
	silent       bool // accept connections but never answer
	holdBlocks   bool // do not answer getdata(block)
	closeOnBlockGetData bool
	untrusted    bool
	sendAddrs    bool // an addr message follows the version reply (the node stores peer addresses)
	blockDelay   time.Duration // replies that contain blocks are written after this delay
	// hook may answer a message itself (returns true); called without mu held
	hook         func(tc *tcpConn, msg wire.Message) ([]wire.Message, bool)
	start        time.Time
	accepted     int32
}

type tcpConn struct {
	id    int
	c     net.Conn
	wmu   sync.Mutex
	sim   *simPeer // per-connection view (sendheaders, lastSent)
	recvd []string
	mu    sync.Mutex
}

func newTCPPeer(tree *verifkit.Tree, tip *verifkit.Block) (*tcpPeer, error) {
	ln, err := net.Listen("tcp", "127.0.0.1:0")
	if err != nil {
		return nil, err
	}
	p := &tcpPeer{sim: newSimPeer(tree, tip), ln: ln, start: time.Now()}
	p.wg.Add(1)
	go p.acceptLoop()
	return p, nil
}

func (p *tcpPeer) addr() string { return p.ln.Addr().String() }

func (p *tcpPeer) acceptLoop() {
	defer p.wg.Done()
	for {
		c, err := p.ln.Accept()
		if err != nil {
			return
		}
		atomic.AddInt32(&p.accepted, 1)
		p.mu.Lock()
		tc := &tcpConn{id: len(p.conns), c: c}
		// a connection-local peer model sharing tree/tip through the parent
		tc.sim = &simPeer{tree: p.sim.tree, tip: p.sim.tip, batch: p.sim.batch, txByID: p.sim.txByID, gotGetData: p.sim.gotGetData, parseBlocks: false}
		p.conns = append(p.conns, tc)
		p.mu.Unlock()
		p.wg.Add(2)
		go func() { defer p.wg.Done(); p.serve(tc) }()
		go func() { defer p.wg.Done(); p.pinger(tc) }()
	}
}

func (tc *tcpConn) write(m wire.Message) error {
	tc.wmu.Lock()
	defer tc.wmu.Unlock()
	if _, isPing := m.(*wire.MsgPing); !isPing {
		tc.mu.Lock()
		if len(tc.recvd) < 2000 {
			tc.recvd = append(tc.recvd, "peer->node "+describeMsg(m))
		}
		tc.mu.Unlock()
	}
	tc.c.SetWriteDeadline(time.Now().Add(5 * time.Second))
	_, err := wire.WriteMessageN(tc.c, m, wire.ProtocolVersion, l1Magic)
	return err
}

// pinger: the node's periodic check() only runs after an incoming message.
func (p *tcpPeer) pinger(tc *tcpConn) {
	for atomic.LoadInt32(&p.closed) == 0 {
		time.Sleep(40 * time.Millisecond)
		p.mu.Lock()
		silent := p.silent
		p.mu.Unlock()
		if silent {
			continue
		}
		if err := tc.write(wire.NewMsgPing(uint64(time.Now().UnixNano()))); err != nil {
			return
		}
		// announcements of a changed tip
		p.mu.Lock()
		tc.sim.tip = p.sim.tip
		ann := tc.sim.announce()
		p.mu.Unlock()
		for _, m := range ann {
			if tc.write(m) != nil {
				return
			}
		}
	}
}

func (p *tcpPeer) serve(tc *tcpConn) {
	defer tc.c.Close()
	for {
		_, msg, _, err := wire.ReadMessageN(tc.c, wire.ProtocolVersion, l1Magic)
		if err != nil {
			if me, ok := err.(*wire.MessageError); ok && me.Type == wire.MessageErrorUnknownCommand {
				continue
			}
			return
		}
		tc.mu.Lock()
		if _, isPong := msg.(*wire.MsgPong); !isPong && len(tc.recvd) < 2000 {
			tc.recvd = append(tc.recvd, "node->peer "+describeMsg(msg))
		}
		tc.mu.Unlock()
		p.mu.Lock()
		hook, delay := p.hook, p.blockDelay
		p.mu.Unlock()
		if hook != nil {
			if resp, done := hook(tc, msg); done {
				for _, m := range resp {
					if tc.write(m) != nil {
						return
					}
				}
				continue
			}
		}
		p.mu.Lock()
		silent, hold, closeOn := p.silent, p.holdBlocks, p.closeOnBlockGetData
		tc.sim.tip = p.sim.tip
		var resp []wire.Message
		if !silent {
			if gd, ok := msg.(*wire.MsgGetData); ok && (hold || closeOn) && len(invHashes([]wire.Message{gd}, wire.InvTypeBlock)) > 0 {
				for _, h := range invHashes([]wire.Message{gd}, wire.InvTypeBlock) {
					p.sim.gotGetData[h]++
				}
				if closeOn {
					p.mu.Unlock()
					return
				}
			} else {
				resp = tc.sim.respond(msg)
				if _, isVersion := msg.(*wire.MsgVersion); isVersion && p.sendAddrs {
					am := wire.NewMsgAddr()
					for j := 0; j < 3; j++ {
						am.AddAddress(wire.NewNetAddressIPPort([]byte{127, 0, 0, 1}, uint16(1+j+3*tc.id), 0))
					}
					resp = append(resp, am)
				}
			}
		}
		p.mu.Unlock()
		if delay > 0 {
			for _, m := range resp {
				if m.Command() == wire.CmdBlock {
					time.Sleep(delay)
					break
				}
			}
		}
		for _, m := range resp {
			if tc.write(m) != nil {
				return
			}
		}
	}
}

func (p *tcpPeer) setTip(b *verifkit.Block) {
	p.mu.Lock()
	p.sim.tip = b
	p.mu.Unlock()
}

// wireLog returns, per connection, what was read from and written to the node (pings left out).
func (p *tcpPeer) wireLog() [][]string {
	p.mu.Lock()
	conns := append([]*tcpConn(nil), p.conns...)
	p.mu.Unlock()
	var out [][]string
	for _, tc := range conns {
		tc.mu.Lock()
		out = append(out, append([]string(nil), tc.recvd...))
		tc.mu.Unlock()
	}
	return out
}

func (p *tcpPeer) connections() int { return int(atomic.LoadInt32(&p.accepted)) }

func (p *tcpPeer) closeAllConns() {
	p.mu.Lock()
	for _, tc := range p.conns {
		tc.c.Close()
	}
	p.mu.Unlock()
}

func (p *tcpPeer) shutdown() {
	atomic.StoreInt32(&p.closed, 1)
	p.ln.Close()
	p.closeAllConns()
	p.wg.Wait()
}

// ---- node under test over TCP ----------------------------------------------------------------------------------

type l1Env struct {
	peer    *tcpPeer
	store   *verifkit.Store
	node    *Node
	log     *eventLog
	fetch   *uniFetcher
	runDone chan error
	cfg     config.Config
}

func newL1(peer *tcpPeer, addr string, store *verifkit.Store, startHash bitcoin.Hash32, pushDatas [][]byte, uni *verifkit.Universe, log *eventLog) *l1Env {
	return newL1Opt(peer, addr, store, startHash, pushDatas, uni, log, nil)
}

func newL1Opt(peer *tcpPeer, addr string, store *verifkit.Store, startHash bitcoin.Hash32, pushDatas [][]byte, uni *verifkit.Universe, log *eventLog, tweak func(*config.Config)) *l1Env {
	e := &l1Env{peer: peer, store: store, log: log, runDone: make(chan error, 1)}
	if e.log == nil {
		e.log = newEventLog()
	}
	e.cfg = config.Config{Net: bitcoin.MainNet, IsTest: true, NodeAddress: addr, UserAgent: "/verif-l1/",
		StartHash: startHash, UntrustedCount: 0, SafeTxDelay: 300, ShotgunCount: 1, MaxRetries: 1000000, RetryDelay: 30}
	if tweak != nil {
		tweak(&e.cfg)
	}
	e.fetch = &uniFetcher{uni: uni}
	e.node = NewNode(e.cfg, store, e.fetch, e.fetch)
	for i := 0; i < 2; i++ {
		e.node.RegisterHandler(&recorder{id: i, log: e.log})
	}
	if len(pushDatas) > 0 {
		e.node.SubscribePushDatas(quietCtx, pushDatas)
	}
	return e
}

func (e *l1Env) run() {
	go func() { e.runDone <- e.node.Run(quietCtx) }()
}

// stop calls Stop with a watchdog; returns whether Stop and Run returned, and how long Stop took.
func (e *l1Env) stop(watchdog time.Duration) (bool, time.Duration) {
	t0 := time.Now()
	done := make(chan struct{})
	go func() {
		e.node.Stop(quietCtx)
		close(done)
	}()
	select {
	case <-done:
	case <-time.After(watchdog):
		return false, time.Since(t0)
	}
	atomic.StoreInt32(&e.log.stopped, 1)
	select {
	case <-e.runDone:
	case <-time.After(2 * time.Second):
		return false, time.Since(t0)
	}
	return true, time.Since(t0)
}

func (e *l1Env) waitHeight(h int, d time.Duration) bool {
	return waitCond(d, func() bool { return e.node.blocks.LastHeight() >= h })
}

func waitCond(d time.Duration, cond func() bool) bool {
	deadline := time.Now().Add(d)
	for time.Now().Before(deadline) {
		if cond() {
			return true
		}
		time.Sleep(5 * time.Millisecond)
	}
	return cond()
}

func describeChain(n *Node) string {
	return fmt.Sprintf("height=%d hash=%s", n.blocks.LastHeight(), n.blocks.LastHash().String()[:8])
}
