#!/bin/bash
# tools/sweep_clean.sh <tier> <seed>... : run every check on the unchanged tree at the given seeds
# (no evidence written); one summary line per check in .work/clean_sweep.txt
cd /verif
export GOFLAGS=-mod=mod GOPROXY=off GOSUMDB=off GOTOOLCHAIN=local
tier=$1; shift
for s in "$@"; do
  for p in C01 C02 C03 C04 C05 C06 C07 C08 C09 C10 C11 C12 C13 C14 C15 C16 C17 C18 C19 C20; do
    out=$(./vcheck $p --tier $tier --seed $s --no-evidence 2>&1)
    rc=$?
    echo "seed=$s rc=$rc $(echo "$out" | grep -E "^$p tier=" | tail -1)" >> .work/clean_sweep.txt
    echo "$out" | grep -E "VIOLATION|BROKEN|inconclusive" | sed "s/^/   seed=$s $p: /" >> .work/clean_sweep.txt
    if [ $rc -ne 0 ]; then mkdir -p .work/sweepfail; cp evidence/replay/$p-*.json .work/sweepfail/ 2>/dev/null; echo "$out" > .work/sweepfail/$p-seed$s.log; fi
  done
done
echo DONE >> .work/clean_sweep.txt
