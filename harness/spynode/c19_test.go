//go:build verif

package spynode

import (
	"math/rand"
	"sync"
	"context"
	"fmt"
	"regexp"
	"runtime"
	"sort"
	"strings"
	"sync/atomic"
	"testing"
	"time"

	"github.com/tokenized/pkg/bitcoin"
	"github.com/tokenized/pkg/wire"
	"github.com/tokenized/spynode/internal/verifhook"
	"github.com/tokenized/spynode/internal/verifkit"
)

// ---- C19 (L1): Stop always terminates, persists, silences handlers ---------------------------------------

var c19Points = []string{"refused", "silent", "header-sync", "blocks-outstanding", "inside-process-block",
	"consumer-exit-full-channel", "in-sync-traffic", "between-shutdown-phases", "reconnect-loop", "lost-connection-resume", "tx-backlog", "block-fetch-fault"}

var goroutineHdr = regexp.MustCompile(`(?m)^goroutine \d+ \[([^\]]+)\]:\n([^\n]+)\n`)

// nodeGoroutines returns a sorted summary "state @ top function" of goroutines running node code.
func nodeGoroutines() []string {
	buf := make([]byte, 4<<20)
	n := runtime.Stack(buf, true)
	var out []string
	for _, g := range strings.Split(string(buf[:n]), "\n\n") {
		if !strings.Contains(g, "internal/spynode.(*Node)") && !strings.Contains(g, "internal/handlers.") {
			continue
		}
		m := goroutineHdr.FindStringSubmatch(g + "\n")
		if m == nil {
			continue
		}
		state := m[1]
		if i := strings.Index(state, ","); i >= 0 {
			state = state[:i] // drop "N minutes"
		}
		// first spynode frame
		frame := ""
		for _, l := range strings.Split(g, "\n") {
			if strings.Contains(l, "tokenized/spynode/internal/") && !strings.HasPrefix(strings.TrimSpace(l), "/") {
				frame = strings.TrimSpace(l)
				if i := strings.Index(frame, "("); i > 0 && strings.HasSuffix(frame, ")") {
					frame = frame[:strings.LastIndex(frame, "(")]
				}
				break
			}
		}
		out = append(out, state+" @ "+frame)
	}
	sort.Strings(out)
	return out
}

type c19Result struct {
	point    string
	stopped  bool
	stopTook time.Duration
	detail   string
}

func TestVerif_C19(t *testing.T) {
	rep := verifkit.NewReport("C19")
	rep.Rule = "each case starts the real Node.Run against a scripted TCP peer and requests Stop at a generated point: connection refused, accepted-but-silent peer, during header sync of a 2100-block chain, with 10 block requests outstanding (peer withholds bodies), inside ProcessBlock (handler parked in HandleHeaders until Stop has returned, at most 1.5 s), after the tx consumer exited on an error with the tx channel full, in sync with transaction traffic, with a backlog of transactions behind a slow handler while the application keeps submitting its own, after a block failed in the middle of its processing (output fetcher error), between the shutdown phases (hooks node.stop.* sleep), in the reconnect loop (peer closes every connection), after a lost connection was resumed. Oracle: Stop and Run return (else two goroutine dumps 3 s apart: identical blocked node goroutines = deadlock witness, otherwise inconclusive), no handler callback after Stop returned, a fresh node on the storage loads the stopped node's chain and unconfirmed set, a peers file exists, and after a lost connection no (height, hash) is announced twice. Non-trivial = every case; distinct by (stop point, delay class, outcome)"
	rep.Assumptions = []string{"a stuck Stop is decided by the stable-deadlock signature of two goroutine dumps, not by the watchdog timer", "handler parking is bounded (300 ms) so that Stop can return"}
	defer rep.Write()

	for _, site := range []string{"node.stop.begin", "node.stop.incomingStopped", "node.stop.processingStopped"} {
		verifhook.Set(site, func(ctx context.Context, s string) {
			if ctx.Value(c19WidenKey{}) != nil {
				time.Sleep(60 * time.Millisecond)
			}
		})
	}
	defer func() {
		for _, site := range []string{"node.stop.begin", "node.stop.incomingStopped", "node.stop.processingStopped"} {
			rep.Event("hook_hits:"+site, verifhook.Hits(site))
			verifhook.Set(site, nil)
		}
	}()

	n := verifkit.N(60, 1500)
	for ci := 0; ci < n; ci++ {
		if !verifkit.Mine(ci) {
			continue
		}
		r := verifkit.Rand("C19", ci)
		point := c19Points[ci%len(c19Points)]
		res := c19Case(rep, ci, point, r.Intn(120), r.Int63())
		rep.Event("stop_point:"+point, 1)
		if res.stopped {
			rep.Event("stop_returned", 1)
			rep.Event("stop_ms_total", res.stopTook.Milliseconds())
		}
		rep.Case(fmt.Sprintf("%s/%d/%v", point, r.Intn(4), res.stopped), true)
		if rep.WantSample() {
			rep.Sample(map[string]interface{}{"stop_point": point, "stop_returned": res.stopped, "stop_took_ms": res.stopTook.Milliseconds(), "detail": res.detail})
		}
	}
}

type c19WidenKey struct{}

func c19Case(rep *verifkit.Report, ci int, point string, delayMS int, seed int64) c19Result {
	res := c19Result{point: point}
	r := verifkit.Rand("C19/case", ci)
	tree := verifkit.NewTree()
	initial := 8
	startAt := 3
	if point == "header-sync" {
		initial, startAt = 2100, 2097
	}
	if point == "blocks-outstanding" {
		initial, startAt = 30, 2
	}
	tip := tree.ExtendN(tree.Genesis, initial)
	peer, err := newTCPPeer(tree, tip)
	if err != nil {
		rep.Inconc(ci, err.Error())
		return res
	}
	defer peer.shutdown()
	peer.sendAddrs = true
	uni := verifkit.NewUniverse(r, 6)
	sub := randB(r, 20)
	store := verifkit.NewStore(false)
	addr := peer.addr()
	switch point {
	case "refused":
		peer.ln.Close() // nothing listens there any more
	case "silent":
		peer.silent = true
	case "blocks-outstanding":
		peer.holdBlocks = true
	case "reconnect-loop":
		peer.closeOnBlockGetData = true
	}
	e := newL1(peer, addr, store, tip.Ancestor(startAt).Hash, [][]byte{sub}, uni, nil)
	var parked int32
	release := make(chan struct{}) // closed once Stop has returned (or its watchdog fired)
	var releaseOnce sync.Once
	defer releaseOnce.Do(func() { close(release) })
	if point == "inside-process-block" {
		e.log.onEvent = func(ev recEvent) {
			if ev.Kind == "headers" && ev.Handler == 0 && ev.Height >= 6 && atomic.CompareAndSwapInt32(&parked, 0, 1) {
				// parked inside ProcessBlock (unconfirmed lock held) until Stop has returned, at
				// most 1.5 s: a Stop that does not wait for the block processor returns while
				// this handler is still parked, and the rest of the block is delivered afterwards
				select {
				case <-release:
				case <-time.After(1500 * time.Millisecond):
				}
			}
		}
	}
	runCtx := quietCtx
	if point == "between-shutdown-phases" {
		runCtx = context.WithValue(quietCtx, c19WidenKey{}, true)
	}
	go func() { e.runDone <- e.node.Run(runCtx) }()

	inSync := func() bool { return e.node.state.IsReady() && e.node.blocks.LastHeight() >= tip.Height }
	var feederPanic atomic.Value
	mkMu := sync.Mutex{}
	r2 := rand.New(rand.NewSource(seed + 77))
	mkTxLocked := func() *wire.MsgTx {
		mkMu.Lock()
		defer mkMu.Unlock()
		return uni.Build(r2, verifkit.TxSpec{Inputs: []wire.OutPoint{uni.Order[r2.Intn(len(uni.Order))]}, Outputs: [][]byte{verifkit.P2PKH(sub)}})
	}
	mkTx := func() *wire.MsgTx {
		return uni.Build(r, verifkit.TxSpec{Inputs: []wire.OutPoint{uni.Order[r.Intn(len(uni.Order))]}, Outputs: [][]byte{verifkit.P2PKH(sub)}})
	}
	sendToNode := func(m wire.Message) {
		peer.mu.Lock()
		conns := append([]*tcpConn(nil), peer.conns...)
		peer.mu.Unlock()
		if len(conns) > 0 {
			conns[len(conns)-1].write(m)
		}
	}
	announcedBefore := map[string]bool{}
	// drive to the stop point
	switch point {
	case "refused", "silent", "reconnect-loop":
		time.Sleep(time.Duration(50+delayMS) * time.Millisecond)
	case "header-sync":
		time.Sleep(time.Duration(delayMS/4) * time.Millisecond)
	case "blocks-outstanding":
		waitCond(3*time.Second, func() bool { return e.node.state.BlocksRequestedCount() >= 10 })
		time.Sleep(time.Duration(delayMS) * time.Millisecond)
	case "inside-process-block":
		waitCond(3*time.Second, func() bool { return atomic.LoadInt32(&parked) == 1 })
		time.Sleep(time.Duration(delayMS) * time.Millisecond)
	case "consumer-exit-full-channel":
		if !waitCond(4*time.Second, inSync) {
			rep.Inconc(ci, "node did not get in sync")
		}
		// a slow application handler lets the tx channel fill up (back pressure on the incoming
		// goroutine); then the output fetcher starts failing, which ends the tx consumer
		e.log.mu.Lock()
		e.log.onEvent = func(ev recEvent) {
			if ev.Kind == "tx" && ev.Handler == 0 {
				time.Sleep(10 * time.Millisecond)
			}
		}
		e.log.mu.Unlock()
		var txsMade []*wire.MsgTx
		for i := 0; i < 400; i++ {
			txsMade = append(txsMade, mkTx())
		}
		go func() {
			for i := 0; i < 260; i++ {
				sendToNode(txsMade[i])
			}
		}()
		go func() {
			// the application feeds transactions too (Node.HandleTx), as a second producer
			for i := 260; i < 400; i++ {
				if e.node.HandleTx(quietCtx, txsMade[i]) != nil {
					return
				}
			}
		}()
		waitCond(3*time.Second, func() bool { return len(e.node.unconfTxChannel.Channel) >= 100 })
		rep.Event("tx_channel_full_reached", int64(len(e.node.unconfTxChannel.Channel)/100))
		e.fetch.mu.Lock()
		e.fetch.fail = true
		e.fetch.mu.Unlock()
		time.Sleep(time.Duration(200+delayMS) * time.Millisecond)
	case "tx-backlog":
		// a slow application handler with a backlog of relevant transactions behind it
		if !waitCond(4*time.Second, inSync) {
			rep.Inconc(ci, "node did not get in sync")
		}
		e.log.mu.Lock()
		e.log.onEvent = func(ev recEvent) {
			if ev.Kind == "tx" && ev.Handler == 0 {
				time.Sleep(40 * time.Millisecond)
			}
		}
		e.log.mu.Unlock()
		for i := 0; i < 10; i++ {
			sendToNode(mkTx())
		}
		// the application submits transactions of its own all the while (Node.HandleTx), also
		// during the stop: a call is refused with an error once the node shuts down, it must not
		// blow up in the caller
		go func() {
			defer func() {
				if p := recover(); p != nil {
					feederPanic.Store(fmt.Sprintf("%v @ %s", p, verifkit.PanicFrame()))
				}
			}()
			for i := 0; i < 160; i++ {
				if e.node.HandleTx(quietCtx, mkTxLocked()) != nil {
					return
				}
			}
		}()
		waitCond(3*time.Second, func() bool {
			for _, ev := range e.log.snapshot() {
				if ev.Kind == "tx" {
					return true
				}
			}
			return false
		})
		time.Sleep(time.Duration(delayMS/4) * time.Millisecond)
	case "block-fetch-fault":
		// a block fails in the middle of its processing: it holds a new relevant transaction whose
		// spent output must be fetched, and the fetcher fails
		if !waitCond(4*time.Second, inSync) {
			rep.Inconc(ci, "node did not get in sync")
		}
		e.fetch.mu.Lock()
		e.fetch.fail = true
		e.fetch.mu.Unlock()
		peer.mu.Lock()
		peer.sim.tip = tree.Extend(peer.sim.tip, []*wire.MsgTx{mkTxLocked()})
		peer.mu.Unlock()
		time.Sleep(time.Duration(300+delayMS) * time.Millisecond)
	case "in-sync-traffic", "between-shutdown-phases":
		if !waitCond(4*time.Second, inSync) {
			rep.Inconc(ci, "node did not get in sync")
		}
		for i := 0; i < 10+r.Intn(30); i++ {
			sendToNode(mkTx())
			if r.Intn(6) == 0 {
				peer.setTip(tree.Extend(peer.sim.tip, nil))
			}
			time.Sleep(time.Duration(r.Intn(6)) * time.Millisecond)
		}
		time.Sleep(time.Duration(delayMS) * time.Millisecond)
	case "lost-connection-resume":
		if !waitCond(4*time.Second, inSync) {
			rep.Inconc(ci, "node did not get in sync")
		}
		for _, ev := range e.log.snapshot() {
			if ev.Kind == "headers" && ev.Handler == 0 {
				announcedBefore[fmt.Sprintf("%d/%s", ev.Height, ev.Header.BlockHash())] = true
			}
		}
		mark := len(e.log.snapshot())
		before := peer.connections()
		peer.closeAllConns()
		nt := tree.ExtendN(peer.sim.tip, 1+r.Intn(4))
		peer.setTip(nt)
		if !waitCond(6*time.Second, func() bool { return peer.connections() > before && e.node.blocks.LastHeight() >= nt.Height }) {
			rep.Finding(ci, "C19/no-resume-after-lost-connection", fmt.Sprintf("trusted connection closed at height %d; after 6 s: connections %d->%d, node height %d, peer height %d", tip.Height, before, peer.connections(), e.node.blocks.LastHeight(), nt.Height), map[string]interface{}{"callbacks": e.log.strings(mark)})
		}
		// resumption: every block the peer added is announced to the handlers (once the node holds it)
		waitCond(2*time.Second, func() bool {
			seen := 0
			for _, ev := range e.log.snapshot()[mark:] {
				if ev.Kind == "headers" && ev.Handler == 0 && ev.Height > tip.Height {
					seen++
				}
			}
			return seen >= nt.Height-tip.Height
		})
		newSeen := map[int]bool{}
		for _, ev := range e.log.snapshot()[mark:] {
			if ev.Kind == "headers" && ev.Handler == 0 {
				newSeen[ev.Height] = true
			}
		}
		for h := tip.Height + 1; h <= nt.Height && e.node.blocks.LastHeight() >= nt.Height; h++ {
			if !newSeen[h] {
				rep.Finding(ci, "C19/block-not-delivered-after-reconnect", fmt.Sprintf("after the trusted connection was re-established the node reached height %d but block %d was never announced to the handlers", e.node.blocks.LastHeight(), h), map[string]interface{}{"callbacks": e.log.strings(mark)})
				break
			}
		}
		for _, ev := range e.log.snapshot()[mark:] {
			if ev.Kind == "headers" && ev.Handler == 0 && announcedBefore[fmt.Sprintf("%d/%s", ev.Height, ev.Header.BlockHash())] {
				rep.Finding(ci, "C19/block-reannounced-after-reconnect", fmt.Sprintf("block %d was announced to handlers again after the trusted connection was re-established", ev.Height), map[string]interface{}{"callbacks": e.log.strings(0)})
				break
			}
		}
		tip = nt
	}

	// ---- stop
	ok, took := e.stop(12 * time.Second)
	releaseOnce.Do(func() { close(release) })
	res.stopped, res.stopTook = ok, took
	if !ok {
		d1 := nodeGoroutines()
		time.Sleep(3 * time.Second)
		d2 := nodeGoroutines()
		if len(d1) > 0 && strings.Join(d1, "\n") == strings.Join(d2, "\n") {
			// stable: the same node goroutines blocked at the same places
			var blocked []string
			for _, g := range d1 {
				if strings.HasPrefix(g, "chan send") || strings.HasPrefix(g, "sync.Mutex.Lock") || strings.HasPrefix(g, "semacquire") || strings.HasPrefix(g, "chan receive") {
					blocked = append(blocked, g)
				}
			}
			sig := "?"
			for _, g := range d1 {
				if strings.HasPrefix(g, "chan send") {
					sig = g[strings.Index(g, "@ ")+2:]
				}
			}
			res.detail = strings.Join(d1, " | ")
			rep.Finding(ci, "C19/stop-never-returns/"+point+"/"+sig, fmt.Sprintf("Stop requested at stop point %q did not return after %v; node goroutines are blocked identically in two dumps 3 s apart: %s", point, took.Round(time.Second), strings.Join(d1, " | ")), map[string]interface{}{"stop_point": point, "goroutines": d1})
		} else {
			rep.Inconc(ci, "Stop did not return within the watchdog, goroutines still changing")
		}
		// leave the stuck node behind; its peer is shut down by the deferred call
		return res
	}
	if p := feederPanic.Load(); p != nil {
		rep.Finding(ci, "C19/panic-in-application-call-during-stop/"+point, fmt.Sprintf("Node.HandleTx called by the application while the node was stopping panicked: %v", p), nil)
	}
	// ---- after stop: silence
	time.Sleep(250 * time.Millisecond)
	if point == "tx-backlog" || point == "inside-process-block" {
		time.Sleep(900 * time.Millisecond) // work that was in flight at the stop would surface by now
	}
	if late := atomic.LoadInt32(&e.log.afterStop); late > 0 {
		rep.Finding(ci, "C19/callback-after-stop/"+point, fmt.Sprintf("%d handler callbacks after Stop had returned", late), map[string]interface{}{"callbacks": e.log.strings(0)})
	}
	// ---- persisted state: a fresh node loads what the stopped node had
	if point != "refused" || true {
		wantTip := e.node.blocks.LastHeight()
		var wantHash *bitcoin.Hash32
		if wantTip >= 0 {
			wantHash = e.node.blocks.LastHash()
		}
		wantUnconf := e.node.txs.VerifUnconfirmed()
		e2, err := newDD(ddOpt{store: store.Clone(), startHash: e.cfg.StartHash})
		if err != nil {
			rep.Finding(ci, "C19/state-not-loadable-after-stop/"+point, err.Error(), nil)
			return res
		}
		if wantTip >= 0 && (e2.node.blocks.LastHeight() != wantTip || *e2.node.blocks.LastHash() != *wantHash) {
			rep.Finding(ci, "C19/chain-not-persisted/"+point, fmt.Sprintf("stopped node was at %d (%s), a fresh node on the storage loads %s", wantTip, wantHash.String()[:8], describeChain(e2.node)), nil)
		}
		got := e2.node.txs.VerifUnconfirmed()
		if len(got) != len(wantUnconf) {
			rep.Finding(ci, "C19/unconfirmed-not-persisted/"+point, fmt.Sprintf("stopped node tracked %d unconfirmed transactions, the storage holds %d", len(wantUnconf), len(got)), nil)
		}
		// peer data: what a fresh node loads equals what the stopped node knew (a node stopped
		// before it learned of any peer has nothing to save)
		if have, loaded := e.node.peers.Count(), e2.node.peers.Count(); have != loaded {
			rep.Finding(ci, "C19/peers-not-persisted/"+point, fmt.Sprintf("the stopped node knew %d peer addresses, the storage holds %d", have, loaded), nil)
		} else if have > 0 {
			rep.Event("peer_addresses_persisted_checked", 1)
		}
	}
	return res
}
