//go:build verif

package spynode

import (
	"sync/atomic"
	"fmt"
	"testing"
	"time"

	"github.com/tokenized/pkg/bitcoin"
	"github.com/tokenized/spynode/internal/verifkit"
)

// ---- C01 cross-check on the L1 engine: the real Node.Run (all goroutines, sockets) -------------------

func l1ChainEqual(e *l1Env, tip *verifkit.Block) (bool, string) {
	n := e.node
	if n.blocks.LastHeight() != tip.Height {
		return false, fmt.Sprintf("node height %d, peer height %d", n.blocks.LastHeight(), tip.Height)
	}
	chain := tip.Chain()
	for h := tip.Height; h >= 0 && h > tip.Height-30; h-- {
		got, err := n.blocks.Hash(quietCtx, h)
		if err != nil || *got != chain[h].Hash {
			return false, fmt.Sprintf("height %d differs", h)
		}
	}
	return true, ""
}

func TestVerif_C01L1(t *testing.T) {
	rep := verifkit.NewReport("C01")
	defer rep.Write()
	n := verifkit.N(16, 400)
	for ci := 0; ci < n; ci++ {
		if !verifkit.Mine(ci) {
			continue
		}
		r := verifkit.Rand("C01/L1", ci)
		tree := verifkit.NewTree()
		initial := 5 + r.Intn(40)
		if ci%8 == 7 {
			initial = 2001 + r.Intn(60)
		}
		start := 1 + r.Intn(initial)
		if initial > 1000 {
			start = initial - 3 - r.Intn(20)
		}
		tip := tree.ExtendN(tree.Genesis, initial)
		peer, err := newTCPPeer(tree, tip)
		if err != nil {
			rep.Inconc(ci, err.Error())
			continue
		}
		store := verifkit.NewStore(r.Intn(2) == 0)
		startHash := tip.Ancestor(start).Hash
		log := newEventLog()
		// online in-sync check, causal form: every block of the peer's best chain for which the
		// peer had received getdata when HandleInSync is called must be held by the node
		var inSyncViolations int32
		var curEnv atomic.Pointer[l1Env]
		log.onEvent = func(ev recEvent) {
			if ev.Kind != "insync" || ev.Handler != 0 {
				return
			}
			peer.mu.Lock()
			ptip := peer.sim.tip
			got := map[bitcoin.Hash32]bool{}
			for h := range peer.sim.gotGetData {
				got[h] = true
			}
			peer.mu.Unlock()
			// "holds": in its block repository (the same rule as in the DS engine; a node whose
			// start block was reorganised away across a restart stores headers only - DESIGN #22)
			cur := curEnv.Load()
			if cur == nil {
				return
			}
			for h := range got {
				h := h
				if b := tree.Get(h); b != nil && b.IsAncestorOf(ptip) && !cur.node.blocks.Contains(&h) {
					atomic.AddInt32(&inSyncViolations, 1)
				}
			}
		}
		e := newL1(peer, peer.addr(), store, startHash, nil, nil, log)
		curEnv.Store(e)
		e.run()
		fp := fmt.Sprintf("i%d", initial/1000)
		stalled := ""
		settle := func(what string) bool {
			for round := 0; round < 4; round++ {
				peer.mu.Lock()
				target := peer.sim.tip
				peer.mu.Unlock()
				if waitCond(4*time.Second, func() bool { ok, _ := l1ChainEqual(e, target); return ok }) {
					return true
				}
				if round == 3 {
					break
				}
				// let the request time-outs fire (polled every 5 s by the node)
				e.node.state.VerifAge(11 * time.Minute)
				time.Sleep(5500 * time.Millisecond)
			}
			peer.mu.Lock()
			target := peer.sim.tip
			peer.mu.Unlock()
			_, why := l1ChainEqual(e, target)
			stalled = fmt.Sprintf("after %s: %s", what, why)
			return false
		}
		ok := settle("initial sync")
		steps := 2 + r.Intn(4)
		for s := 0; ok && s < steps; s++ {
			peer.mu.Lock()
			cur := peer.sim.tip
			peer.mu.Unlock()
			switch k := r.Intn(10); {
			case k < 4:
				peer.setTip(tree.ExtendN(cur, 1+r.Intn(5)))
				fp += "e"
			case k < 7:
				d := 1 + r.Intn(6)
				if d > cur.Height {
					d = cur.Height
				}
				nt := cur.Ancestor(cur.Height - d)
				for i := 0; i < d+1+r.Intn(3); i++ {
					nt = tree.Extend(nt, nil)
				}
				peer.setTip(nt)
				fp += fmt.Sprintf("r%d", d)
			case k < 8:
				peer.closeAllConns()
				fp += "d"
			default:
				// clean restart through Stop / Run
				if stopped, _ := e.stop(12 * time.Second); !stopped {
					rep.Inconc(ci, "Stop did not return")
					ok = false
					continue
				}
				log.stopped = 0
				e = newL1(peer, peer.addr(), store, startHash, nil, nil, log)
				curEnv.Store(e)
				e.run()
				fp += "S"
			}
			if r.Intn(3) > 0 {
				ok = settle("step " + fp)
			} else {
				time.Sleep(time.Duration(r.Intn(60)) * time.Millisecond)
			}
		}
		if ok {
			ok = settle("final")
		}
		if !ok && stalled != "" {
			rep.Finding(ci, "C01/L1/stall", "real Node.Run over TCP: "+stalled+" | steps "+fp, map[string]interface{}{"steps": fp, "callbacks": log.strings(0), "wire": peer.wireLog()})
		}
		if atomic.LoadInt32(&inSyncViolations) > 0 {
			rep.Finding(ci, "C01/L1/insync-before-requested-block-announced", fmt.Sprintf("HandleInSync was delivered while %d block(s) the node had already requested from the peer are not in its block repository", atomic.LoadInt32(&inSyncViolations)), map[string]interface{}{"steps": fp, "callbacks": log.strings(0), "wire": peer.wireLog()})
		}
		e.stop(12 * time.Second)
		peer.shutdown()
		rep.Event("l1_scenarios", 1)
		rep.Event("l1_connections", int64(peer.connections()))
		rep.Case("L1/"+fp, len(fp) > 2)
		if rep.WantSample() {
			rep.Sample(map[string]interface{}{"engine": "L1", "initial": initial, "start": start, "steps": fp})
		}
	}
}
