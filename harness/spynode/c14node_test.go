//go:build verif

package spynode

import (
	"fmt"
	"testing"
	"time"

	"github.com/tokenized/pkg/bitcoin"
	"github.com/tokenized/pkg/wire"
	"github.com/tokenized/spynode/internal/handlers"
	"github.com/tokenized/spynode/internal/verifkit"
)

// ---- C14 at node level (DD): announcements of confirmed transactions are forgotten ----------------------
//
// The component monitor (internal/handlers) drives the inv handlers and trackers; what ties them to
// block processing - ProcessBlock -> CleanupBlock -> every connection's tracker - only exists in the
// node.  Here the node's own tracker (trusted connection) and real UntrustedNode objects registered
// with the node hold announcements whose asked peer stays silent; then a block confirms some of
// them, in sync or while the node catches up after a dropped connection.

type c14Peer struct {
	name string
	un   *UntrustedNode // nil = the trusted connection
}

func (w *txWorld) c14NewUntrusted(addr string) *UntrustedNode {
	n := w.e.node
	un := NewUntrustedNode(addr, w.e.cfg, n.state, n.store, n.peers, n.blocks, n.txs, n.memPool, &n.unconfTxChannel, n.handlers, n, false)
	un.messageHandlers = handlers.NewUntrustedMessageHandlers(w.e.ctx, n.state, un.untrustedState, n.peers, n.blocks, un.txTracker, n.memPool, &n.unconfTxChannel, n, addr)
	un.outgoing.Open(1000)
	un.active = true
	un.untrustedState.SetVersionReceived()
	un.untrustedState.SetHandshakeComplete()
	un.untrustedState.SetVerified()
	n.untrustedLock.Lock()
	n.untrustedNodes = append(n.untrustedNodes, un)
	n.untrustedLock.Unlock()
	return un
}

func c14DrainTxRequests(ch chan wire.Message) []bitcoin.Hash32 {
	var out []bitcoin.Hash32
	for {
		select {
		case m := <-ch:
			if gd, ok := m.(*wire.MsgGetData); ok {
				for _, iv := range gd.InvList {
					if iv.Type == wire.InvTypeTx {
						out = append(out, iv.Hash)
					}
				}
			}
		default:
			return out
		}
	}
}

func TestVerif_C14Node(t *testing.T) {
	rep := verifkit.NewReport("C14")
	defer rep.Write()
	n := verifkit.N(600, 40000)
	for ci := 0; ci < n; ci++ {
		if !verifkit.Mine(ci) {
			continue
		}
		ci := ci
		verifkit.RunCase(rep, ci, func() {
			r := verifkit.Rand("C14/node", ci)
			w, err := newTxWorld(r, verifkit.NewStore(false), 3+r.Intn(4), 1)
			if err != nil {
				rep.Inconc(ci, err.Error())
				return
			}
			node := w.e.node
			peers := []*c14Peer{{name: "trusted"}}
			for i := 0; i < 1+r.Intn(2); i++ {
				addr := fmt.Sprintf("10.1.1.%d:8333", i+1)
				peers = append(peers, &c14Peer{name: addr, un: w.c14NewUntrusted(addr)})
			}
			var trustedOut []wire.Message // what the node queued for the trusted peer
			send := func(p *c14Peer, m wire.Message) {
				w.guard("inv "+p.name, func() {
					if p.un == nil {
						trustedOut = append(trustedOut, w.e.handle(m)...)
					} else {
						p.un.handleMessage(w.e.ctx, m)
					}
				})
			}
			requestsOf := func(p *c14Peer) []bitcoin.Hash32 {
				if p.un == nil {
					trustedOut = append(trustedOut, w.e.drain()...)
					out := invHashes(trustedOut, wire.InvTypeTx)
					trustedOut = nil
					return out
				}
				return c14DrainTxRequests(p.un.outgoing.Channel)
			}
			// transactions announced by two or three peers; the first announcer is asked and stays
			// silent, the others wait
			ntx := 1 + r.Intn(4)
			type annc struct {
				ti      *txInfo
				asked   *c14Peer
				waiting []*c14Peer
				inBlock bool
			}
			var as []*annc
			for i := 0; i < ntx; i++ {
				ti := w.makeTx([]string{"out-push", "none"}[r.Intn(2)], []wire.OutPoint{w.uni.Order[i%len(w.uni.Order)]})
				order := r.Perm(len(peers))
				a := &annc{ti: ti, inBlock: r.Intn(3) > 0}
				inv := wire.NewMsgInv()
				inv.AddInvVect(wire.NewInvVect(wire.InvTypeTx, &ti.id))
				for k, pi := range order {
					p := peers[pi]
					send(p, inv)
					got := false
					for _, h := range requestsOf(p) {
						if h == ti.id {
							got = true
						}
					}
					if k == 0 {
						if !got {
							rep.Inconc(ci, "the first announcer was not asked")
							return
						}
						a.asked = p
					} else if got {
						w.find("C14", "C14/node/second-request-within-window", fmt.Sprintf("%s was asked for %s although %s had been asked just before", p.name, ti.name, a.asked.name))
					} else {
						a.waiting = append(a.waiting, p)
					}
				}
				as = append(as, a)
			}
			// a block confirms some of them: in sync, or while catching up after a dropped connection
			mode := []string{"in-sync", "catch-up", "catch-up-two-blocks"}[r.Intn(3)]
			var in []*txInfo
			for _, a := range as {
				if a.inBlock {
					in = append(in, a.ti)
				}
			}
			switch mode {
			case "in-sync":
				w.mine(in, r.Intn(2) == 0)
			default:
				w.dropConnection()
				if mode == "catch-up-two-blocks" {
					w.mine(nil, true)
				}
				w.mine(in, r.Intn(2) == 0)
				w.finishSync()
			}
			if !node.state.IsReady() {
				rep.Inconc(ci, "node did not return to in-sync")
				return
			}
			// the request window passes; every connection has its next activity
			for _, p := range peers {
				for _, h := range requestsOf(p) {
					for _, a := range as {
						if h == a.ti.id {
							w.find("C14", "C14/node/second-request-within-window", fmt.Sprintf("%s requested again from %s before the window had passed", a.ti.name, p.name))
						}
					}
				}
			}
			node.memPool.VerifAge(3500 * time.Millisecond)
			for _, p := range peers {
				w.guard("check "+p.name, func() {
					if p.un == nil {
						node.check(w.e.ctx)
					} else {
						p.un.check(w.e.ctx)
					}
				})
			}
			asked := map[bitcoin.Hash32][]string{}
			for _, p := range peers {
				for _, h := range requestsOf(p) {
					asked[h] = append(asked[h], p.name)
				}
			}
			for _, a := range as {
				who := asked[a.ti.id]
				switch {
				case a.inBlock && len(who) > 0:
					w.find("C14", "C14/node/confirmed-tx-requested/"+mode, fmt.Sprintf("%s was confirmed in a processed block (%s) and is still requested from %v afterwards", a.ti.name, mode, who))
				case !a.inBlock && len(a.waiting) > 0 && len(who) == 0:
					w.find("C14", "C14/node/silent-peer-not-rerequested/"+mode, fmt.Sprintf("%s: %s never delivered; after the window none of the %d waiting announcers was asked", a.ti.name, a.asked.name, len(a.waiting)))
				case !a.inBlock && len(who) > 1:
					w.find("C14", "C14/node/second-request-within-window", fmt.Sprintf("%s requested from %v in one round", a.ti.name, who))
				}
				rep.Event("announcements_judged", 1)
				if a.inBlock {
					rep.Event("confirmed_announcements_judged:"+mode, 1)
				}
			}
			for _, f := range w.finds {
				if f.prop == "C14" {
					rep.Finding(ci, f.sig, f.detail, w.witness())
				} else {
					rep.Event("other_property_findings:"+f.sig, 1)
				}
			}
			rep.Case(fmt.Sprintf("%s/peers=%d/tx=%d/in=%d", mode, len(peers), ntx, len(in)), len(in) > 0)
			if rep.WantSample() {
				rep.Sample(map[string]interface{}{"engine": "DD node level", "mode": mode, "peers": len(peers), "announced": ntx, "confirmed": len(in)})
			}
		})
	}
}
