#!/usr/bin/env python3
"""Prints the prompt given to a fresh sub-agent that is asked to seed a property-breaking change."""
import json, sys
pid = sys.argv[1]
wt = "/tmp/seed/" + pid
p = [json.loads(l) for l in open("/verif/properties.jsonl") if json.loads(l)["id"] == pid][0]
print(f"""You are given a scratch git worktree of the Go repository tokenized/spynode at {wt} (a Bitcoin SV "spy node": syncs headers/blocks from a trusted peer, tracks a mempool for double-spend detection, serves a client wire protocol). Work ONLY inside {wt}. Do not read or touch /repo or /verif (other people's work lives there and your result must be independent of it).

Every shell call needs: export GOFLAGS=-mod=mod GOPROXY=off GOSUMDB=off GOTOOLCHAIN=local   (the sandbox has no network; all modules are in the module cache). The existing test suite is: cd {wt} && go build ./... && go test -vet=off -count=1 ./...   (about 15 s, all tests pass on the unchanged tree).

Here is a semantic property the code is supposed to satisfy:

  id: {p['id']}  --  {p['title']}
  statement: {p['statement']}
  quantified over: {p['quantifier']['text']}
  code it is anchored in: {', '.join(p['anchors']['files'])}
  mechanisms: {'; '.join(m['name'] + ' (' + m['where'] + ')' for m in p['anchors']['mechanism'])}

Your task: produce TWO independent, realistic changes (call them A and B) to the non-test source of tokenized/spynode, each of which BREAKS this property while the repository still compiles and the existing test suite still passes unchanged. They should look like plausible regressions or refactoring slips a maintainer could make (an off-by-one, a dropped lock, a swapped order, a missing check, a wrong variable, a removed dedup gate ...), not sabotage. Prefer changes that need something specific to manifest - a particular interleaving, a fault or crash at a particular point, a multi-step sequence of operations, an unusual input, or two cooperating sites that each look fine alone - rather than changes that any ordinary use would expose at once. A and B should break the property in different ways / at different places.

For each change deliver, under {wt}/SEED/A and {wt}/SEED/B:
  - patch.diff : `git diff` of the change against the worktree's HEAD (only non-test source files; do not include the demo);
  - a demonstration: a Go test file (say which package directory it must be copied into) or small program that FAILS with the change applied and PASSES without it, and which exercises the real code (explain how to run it);
  - notes.md : which part of the property statement is violated, what is needed for it to manifest, and the exact commands you ran.
Check all of this yourself: (1) with the patch applied `go build ./...` and the existing suite pass; (2) the demonstration fails with the patch and passes on the unchanged tree. Leave the worktree's tracked files UNCHANGED at the end (git checkout -- . ; the SEED directory is untracked and stays). Reply with a short summary of A and B (files touched, one line each on how they break the property, and whether all checks passed).""")
