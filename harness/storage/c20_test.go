//go:build verif

package storage

import (
	"bytes"
	"encoding/hex"
	"fmt"
	"math/rand"
	"runtime"
	"strings"
	"testing"

	"github.com/tokenized/pkg/bitcoin"
	"github.com/tokenized/pkg/wire"
	"github.com/tokenized/spynode/internal/platform/config"
	"github.com/tokenized/spynode/internal/verifkit"
	"github.com/tokenized/spynode/pkg/client"
)

// ---- C20 (stored records): loaders fed hostile bytes, in a probe child ---------------------------------

var c20Loaders = []string{"peers", "unconfirmed", "reorg", "txstate", "blocks"}

func c20Load(sel byte, data []byte) error {
	store := verifkit.NewStore(false)
	switch sel {
	case 0:
		store.Put(peersPath, data)
		return NewPeerRepository(store).Load(c09ctx)
	case 1:
		store.Put(unconfirmedPath, data)
		return NewTxRepository(store).Load(c09ctx)
	case 2:
		store.Put("spynode/reorgs/active", data)
		_, err := NewReorgRepository(store).GetActive(c09ctx)
		return err
	case 3:
		var id bitcoin.Hash32
		store.Put(fmt.Sprintf("%s/%s", txStatePath, id), data)
		_, err := FetchTxState(c09ctx, store, id)
		return err
	case 4:
		store.Put("spynode/blocks/00000000", data)
		return NewBlockRepository(config.Config{Net: bitcoin.MainNet}, store).Load(c09ctx)
	}
	return nil
}

func TestVerif_Child(t *testing.T) {
	switch verifkit.ChildKind() {
	case "":
		t.Skip("not a probe child")
	case "c20-store":
		verifkit.ServeChild(3<<30, func(p []byte) string {
			if len(p) == 0 {
				return "ERR 0"
			}
			var before, after runtime.MemStats
			runtime.ReadMemStats(&before)
			err := c20Load(p[0], p[1:])
			runtime.ReadMemStats(&after)
			res := "OK"
			if err != nil {
				res = "ERR"
			}
			return fmt.Sprintf("%s %d", res, after.TotalAlloc-before.TotalAlloc)
		})
	}
}

type randT struct{ *rand.Rand }

func c20Valid(sel int, r *randT) []byte {
	store := verifkit.NewStore(false)
	switch sel {
	case 0:
		repo := NewPeerRepository(store)
		for i := 0; i < 1+r.Intn(5); i++ {
			repo.Add(c09ctx, fmt.Sprintf("[::ffff:10.0.%d.%d]:8333", r.Intn(256), r.Intn(256)))
		}
		repo.Save(c09ctx)
		b, _ := store.Get(peersPath)
		return b
	case 1:
		repo := NewTxRepository(store)
		for i := 0; i < 1+r.Intn(5); i++ {
			var h bitcoin.Hash32
			r.Read(h[:])
			repo.Add(c09ctx, h, r.Intn(2) == 0, r.Intn(2) == 0, -1)
		}
		repo.Save(c09ctx)
		b, _ := store.Get(unconfirmedPath)
		return b
	case 2:
		reorg := Reorg{BlockHeight: r.Intn(100000)}
		for i := 0; i < 1+r.Intn(3); i++ {
			rb := ReorgBlock{Header: wire.BlockHeader{Version: 1, Nonce: r.Uint32()}}
			for j := r.Intn(4); j > 0; j-- {
				var h bitcoin.Hash32
				r.Read(h[:])
				rb.TxIds = append(rb.TxIds, h)
			}
			reorg.Blocks = append(reorg.Blocks, rb)
		}
		var buf bytes.Buffer
		reorg.Write(&buf)
		return buf.Bytes()
	case 3:
		var buf bytes.Buffer
		client.VerifTx(r.Rand).Serialize(&buf)
		return buf.Bytes()
	case 4:
		var buf bytes.Buffer
		for i := 0; i < 1+r.Intn(5); i++ {
			h := wire.BlockHeader{Version: 1, Nonce: r.Uint32()}
			h.Serialize(&buf)
		}
		return buf.Bytes()
	}
	return nil
}

var c20StoreSplices = [][]byte{
	{0xff, 0xff, 0xff, 0xff},
	{0xff, 0xff, 0xff, 0x7f},
	{0x00, 0x00, 0x00, 0x80},
	{0xff, 0xff, 0xff, 0xff, 0xff, 0xff, 0xff, 0xff},
	{0xfe, 0xff, 0xff, 0xff, 0xff},
	{0xff, 0xff, 0xff, 0xff, 0xff, 0xff, 0xff, 0xff, 0x7f},
	{0x00, 0x00, 0x00, 0x02}, // 32 Mi as a 32-bit little-endian count
	{0x00, 0x00, 0x40, 0x00}, // 4 Mi
}

func TestVerif_C20Store(t *testing.T) {
	rep := verifkit.NewReport("C20")
	defer rep.Write()
	child := verifkit.NewChild("c20-store")
	defer child.Close()
	ci := 0
	probe := func(loader, shape string, sel int, data []byte) {
		in := append([]byte{byte(sel)}, data...)
		ans, crash, err := child.Probe(in)
		rep.Event("stored_inputs_loaded", 1)
		if err != nil {
			rep.Inconc(ci, err.Error())
			return
		}
		rule, detail := "", ""
		if crash != nil {
			switch crash.Kind {
			case "infrastructure", "exit", "timeout":
				rep.Inconc(ci, crash.Kind+" "+crash.Fatal)
				return
			}
			rule, detail = crash.Kind+"/"+crash.Frame, crash.Fatal
		} else if strings.HasPrefix(ans, "PANIC") {
			frame := "?"
			if i := strings.LastIndex(ans, " @ "); i >= 0 {
				frame = ans[i+3:]
			}
			rule, detail = "panic/"+frame, ans
		} else {
			var res string
			var alloc uint64
			fmt.Sscanf(ans, "%s %d", &res, &alloc)
			if alloc > 1<<20+64*uint64(len(data)) {
				rule, detail = "alloc-out-of-proportion", fmt.Sprintf("loading %d stored bytes allocated %d bytes, outcome %s", len(data), alloc, res)
			}
		}
		if rule != "" {
			rep.Finding(ci, "C20/stored-"+loader+"/"+rule, detail+" | "+shape, map[string]interface{}{"loader": loader, "shape": shape, "hex": hex.EncodeToString(data[:minI(len(data), 1000)])})
		}
	}
	per := verifkit.N(4, 600)
	for sel, loader := range c20Loaders {
		for k := 0; k < per; k++ {
			ci++
			if !verifkit.Mine(ci) {
				continue
			}
			r := &randT{verifkit.Rand("C20/store/"+loader, k)}
			valid := c20Valid(sel, r)
			if len(valid) > 700 {
				valid = valid[:700]
			}
			probe(loader, "valid record", sel, valid)
			for off := 0; off < len(valid); off++ {
				for si, sp := range c20StoreSplices {
					in := append(append(append([]byte(nil), valid[:off]...), sp...), valid[minI(off+len(sp), len(valid)):]...)
					probe(loader, fmt.Sprintf("valid %s record with fixed-width/varint maximum %d written at offset %d", loader, si, off), sel, in)
				}
			}
			for j := 0; j < 30; j++ {
				noise := make([]byte, r.Intn(120))
				r.Read(noise)
				probe(loader, "random bytes", sel, noise)
			}
			rep.Case(fmt.Sprintf("store/%s/%d", loader, len(valid)%13), true)
		}
	}
}

func minI(a, b int) int {
	if a < b {
		return a
	}
	return b
}
