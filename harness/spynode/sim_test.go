//go:build verif

package spynode

import (
	"fmt"
	"math/rand"
	"time"

	"github.com/tokenized/pkg/bitcoin"
	"github.com/tokenized/pkg/wire"
	"github.com/tokenized/spynode/internal/verifkit"
	"github.com/tokenized/spynode/pkg/client"
)

// ---- DS: deterministic simulation of the node against a scripted peer -------------------------------
//
// The real handlers, state, repositories, ProcessBlock and check() run in one goroutine; the
// harness plays the trusted peer and the scheduler (which message is handled next, when the block
// processor takes a step), so every interleaving is chosen by the PRNG and every intermediate
// state can be probed.

type simPeer struct {
	tree        *verifkit.Tree
	tip         *verifkit.Block
	batch       int  // headers per message
	sendHeaders bool // node asked for header announcements
	lastSent    *verifkit.Block // last header sent on this connection (announcement fork base)
	mempool     []*wire.MsgTx
	txByID      map[bitcoin.Hash32]*wire.MsgTx
	gotGetData  map[bitcoin.Hash32]int // block getdata received (count)
	getDataSeq  []bitcoin.Hash32       // order of block getdata
	getHeaders  int
	parseBlocks bool // deliver blocks as MsgParseBlock
	// hostile hooks
	corruptBody map[bitcoin.Hash32]bool
}

func newSimPeer(tree *verifkit.Tree, tip *verifkit.Block) *simPeer {
	return &simPeer{tree: tree, tip: tip, batch: 2000, txByID: map[bitcoin.Hash32]*wire.MsgTx{},
		gotGetData: map[bitcoin.Hash32]int{}, parseBlocks: true}
}

func (p *simPeer) onChain(b *verifkit.Block) bool { return b.IsAncestorOf(p.tip) }

func (p *simPeer) newConnection() {
	p.sendHeaders = false
	p.lastSent = nil
}

// respond is the model of "behaves like a Bitcoin node".
func (p *simPeer) respond(m wire.Message) []wire.Message {
	switch msg := m.(type) {
	case *wire.MsgVersion:
		v := wire.NewMsgVersion(wire.NewNetAddressIPPort([]byte{127, 0, 0, 1}, 1, 0), wire.NewNetAddressIPPort([]byte{127, 0, 0, 1}, 2, 0), 7, int32(p.tip.Height))
		return []wire.Message{v, wire.NewMsgVerAck()}
	case *wire.MsgGetHeaders:
		p.getHeaders++
		var from *verifkit.Block
		for _, h := range msg.BlockLocatorHashes {
			if b := p.tree.Get(*h); b != nil && p.onChain(b) {
				from = b
				break
			}
		}
		if from == nil {
			from = p.tree.Genesis
		}
		chain := p.tip.Chain()
		hm := wire.NewMsgHeaders()
		for h := from.Height + 1; h <= p.tip.Height && len(hm.Headers) < p.batch; h++ {
			hd := chain[h].Header
			hm.AddBlockHeader(&hd)
			p.lastSent = chain[h]
		}
		if len(hm.Headers) == 0 && p.lastSent == nil {
			p.lastSent = from
		}
		return []wire.Message{hm}
	case *wire.MsgGetData:
		var out []wire.Message
		nf := wire.NewMsgNotFound()
		for _, iv := range msg.InvList {
			switch iv.Type {
			case wire.InvTypeBlock:
				p.gotGetData[iv.Hash]++
				p.getDataSeq = append(p.getDataSeq, iv.Hash)
				if b := p.tree.Get(iv.Hash); b != nil && b.Height > 0 {
					mb := b.Msg()
					if p.corruptBody[b.Hash] {
						mb = b.MsgWithTxs(append([]*wire.MsgTx{b.Txs[0]}, verifkit.Coinbase(9999, uint32(b.Height))))
					}
					out = append(out, blockMsg(mb, p.parseBlocks))
				} else {
					nf.AddInvVect(iv)
				}
			case wire.InvTypeTx:
				if tx, ok := p.txByID[iv.Hash]; ok {
					out = append(out, tx)
				} else {
					nf.AddInvVect(iv)
				}
			}
		}
		if len(nf.InvList) > 0 {
			out = append(out, nf)
		}
		return out
	case *wire.MsgSendHeaders:
		p.sendHeaders = true
	case *wire.MsgMemPool:
		inv := wire.NewMsgInv()
		for _, tx := range p.mempool {
			inv.AddInvVect(wire.NewInvVect(wire.InvTypeTx, tx.TxHash()))
		}
		if len(inv.InvList) > 0 {
			return []wire.Message{inv}
		}
	case *wire.MsgPing:
		return []wire.Message{&wire.MsgPong{Nonce: msg.Nonce}}
	}
	return nil
}

// announce returns the headers message a peer in sendheaders mode pushes after its tip changed.
func (p *simPeer) announce() []wire.Message {
	if !p.sendHeaders || p.lastSent == nil {
		return nil
	}
	if p.lastSent == p.tip {
		return nil
	}
	fork := verifkit.ForkPoint(p.lastSent, p.tip)
	chain := p.tip.Chain()
	hm := wire.NewMsgHeaders()
	for h := fork.Height + 1; h <= p.tip.Height && len(hm.Headers) < 2000; h++ {
		hd := chain[h].Header
		hm.AddBlockHeader(&hd)
		p.lastSent = chain[h]
	}
	if len(hm.Headers) == 0 {
		return nil
	}
	return []wire.Message{hm}
}

type simPolicy struct {
	fairness     int  // the block processor gets a step at least every `fairness` deliveries
	procPct      int  // chance (per scheduling decision) that the block processor steps first
	permute      bool // deliver block replies out of order
	dupPct       int  // chance a delivered block/headers message is delivered twice
	probeEvery   bool // structural probe after every step (C02)
}

type simFinding struct {
	prop, sig, detail string
}

type dsSim struct {
	e      *ddEnv
	peer   *simPeer
	r      *rand.Rand
	pol    simPolicy
	inbox  []wire.Message
	steps  int
	trace  []string
	finds  []simFinding
	// ground truth collected while running
	handledHeaders map[bitcoin.Hash32]bool // headers the node has handled since the peer's last chain change
	announced      []recEvent              // headers callbacks (handler 0)
	inSyncChecked  int
	maxRequested   int
	connected      bool
	stalled        bool
	sinceProc      int
	popped         wire.Block // a block popped by the processor but not yet processed (split step)
	splitPct       int        // chance that a processor step is split at the pop
	crashed        bool
	between        func() // called between scheduling steps (adversary)
	reqThisConn    map[bitcoin.Hash32]int  // block hash -> times requested on this connection
	reqLive        map[bitcoin.Hash32]bool // requested on this connection and, at the end of the last step, still outstanding (in the request queue or in processing): its branch was not abandoned
	wireRequests   int
	everRequested  map[bitcoin.Hash32]bool
	forkExpect     []*verifkit.Block // first block of a branch that forked among pending blocks: it must be requested
	syncRaces      int // syncrace steps that hit the window
	syncRaceWindows int
	forkInWindow   int // forkwindow steps that found a requested, unprocessed block to fork at
	rerequests     int // legitimate repeats on one connection (after the node abandoned the branch)
	// the node was restarted on a stored chain that no longer contains the configured start block
	// although the start block had been found before (known finding of C02, see DESIGN §5)
	startOrphanedAtRestart bool
	probeIf                func() bool // structural probe after every step once this holds (C10: after the injected fault fired)
}

// guard runs node code and turns a panic into a finding (in the real node the goroutine, and
// with it the process, dies).
func (s *dsSim) guard(what string, f func()) {
	defer func() {
		if p := recover(); p != nil {
			s.crashed = true
			s.find("C01", "C01/panic/"+verifkit.PanicFrame(), fmt.Sprintf("panic in %s: %v (node height %d)", what, p, s.e.node.blocks.LastHeight()))
		}
	}()
	f()
}

func (s *dsSim) tracef(f string, a ...interface{}) {
	if len(s.trace) < 600 {
		s.trace = append(s.trace, fmt.Sprintf(f, a...))
	}
}

func (s *dsSim) find(prop, sig, detail string) {
	for _, f := range s.finds {
		if f.sig == sig {
			return
		}
	}
	s.finds = append(s.finds, simFinding{prop, sig, detail})
}

func newDSSim(e *ddEnv, peer *simPeer, r *rand.Rand, pol simPolicy) *dsSim {
	s := &dsSim{e: e, peer: peer, r: r, pol: pol, handledHeaders: map[bitcoin.Hash32]bool{}}
	s.hookLog()
	return s
}

// hookLog installs the online in-sync check on the environment's event log.
func (s *dsSim) hookLog() {
	s.e.log.onEvent = func(ev recEvent) {
		if ev.Kind == "insync" && ev.Handler == 0 {
			s.inSyncChecked++
			// every announced block of the peer's best chain must be held now
			for h := range s.handledHeaders {
				b := s.peer.tree.ByHash[h]
				if b == nil || !s.peer.onChain(b) {
					continue
				}
				if !s.e.node.blocks.Contains(&h) {
					s.find("C01", "C01/insync-before-announced-block-held", fmt.Sprintf("HandleInSync delivered while block %d (%s) that the peer had announced (headers handled by the node) is not held; node height %d", b.Height, h.String()[:8], s.e.node.blocks.LastHeight()))
					return
				}
			}
		}
	}
}

// chainChanged must be called when the peer switches to another branch: announcements made before
// the switch say nothing about the new best chain (a revived branch has to be announced again).
func (s *dsSim) chainChanged() {
	s.handledHeaders = map[bitcoin.Hash32]bool{}
}

// connect re-issues what Run does when a connection is established.
func (s *dsSim) connect() {
	s.e.node.state.MarkConnected()
	s.peer.newConnection()
	s.reqThisConn = map[bitcoin.Hash32]int{}
	s.reqLive = map[bitcoin.Hash32]bool{}
	s.inbox = nil
	s.e.drain()
	s.e.node.outgoing.Add(buildVersionMsg(s.e.cfg.UserAgent, int32(s.e.node.blocks.LastHeight())))
	s.connected = true
	s.tracef("connect (node height %d, peer height %d)", s.e.node.blocks.LastHeight(), s.peer.tip.Height)
}

// reconnect re-issues what Run does between two connections: save, reset the volatile state.
// finishPopped completes a split processor step: Run waits for the processing goroutines (which
// finish the block in hand) before it saves and reconnects or stops.
func (s *dsSim) finishPopped() {
	if s.popped != nil {
		blk := s.popped
		s.popped = nil
		s.guard("block processor (after pop)", func() { s.e.finishStep(blk) })
		s.afterStep("proc")
		s.e.drain()
	}
}

func (s *dsSim) reconnect() {
	s.finishPopped()
	s.e.node.blocks.Save(s.e.ctx)
	s.e.node.txs.Save(s.e.ctx)
	s.e.node.peers.Save(s.e.ctx)
	s.e.node.state.Reset()
	s.connect()
}

// overtakeBlocks queues an announcement ahead of block replies that are still waiting (the peer
// is slow to serve blocks) but behind every headers message already on its way: header messages
// keep the order in which the peer sent them.
func (s *dsSim) overtakeBlocks(a []wire.Message) {
	pos := 0
	for i, m := range s.inbox {
		if _, ok := m.(*wire.MsgHeaders); ok {
			pos = i + 1
		}
	}
	in := append([]wire.Message(nil), s.inbox[:pos]...)
	in = append(in, a...)
	s.inbox = append(in, s.inbox[pos:]...)
}

// feed routes what the node queued to the peer and queues the peer's replies.
func (s *dsSim) feed() bool {
	out := s.e.drain()
	for _, m := range out {
		s.tracef("node->peer %s", describeMsg(m))
		if gd, ok := m.(*wire.MsgGetData); ok {
			s.judgeBlockRequests(gd)
		}
		s.inbox = append(s.inbox, s.peer.respond(m)...)
	}
	return len(out) > 0
}

func describeMsg(m wire.Message) string {
	switch msg := m.(type) {
	case *wire.MsgHeaders:
		if len(msg.Headers) == 0 {
			return "headers[]"
		}
		return fmt.Sprintf("headers[%d first=%s last=%s]", len(msg.Headers), msg.Headers[0].BlockHash().String()[:6], msg.Headers[len(msg.Headers)-1].BlockHash().String()[:6])
	case *wire.MsgGetData:
		s := "getdata["
		for i, iv := range msg.InvList {
			if i < 12 {
				s += iv.Hash.String()[:6] + " "
			}
		}
		return s + fmt.Sprintf("n=%d]", len(msg.InvList))
	case *wire.MsgGetHeaders:
		f := "-"
		if len(msg.BlockLocatorHashes) > 0 {
			f = msg.BlockLocatorHashes[0].String()[:6]
		}
		return fmt.Sprintf("getheaders[n=%d first=%s]", len(msg.BlockLocatorHashes), f)
	case *wire.MsgBlock:
		return "block " + msg.Header.BlockHash().String()[:6]
	case *wire.MsgParseBlock:
		return "block " + msg.Header.BlockHash().String()[:6]
	case *wire.MsgTx:
		return "tx " + msg.TxHash().String()[:6]
	}
	return m.Command()
}

func isBlockMsg(m wire.Message) bool {
	switch m.(type) {
	case *wire.MsgBlock, *wire.MsgParseBlock:
		return true
	}
	return false
}

// deliver handles one message from the inbox (chosen by policy) in the node.
func (s *dsSim) deliver() {
	i := 0
	if s.pol.permute && isBlockMsg(s.inbox[0]) {
		n := 0
		for n < len(s.inbox) && isBlockMsg(s.inbox[n]) {
			n++
		}
		i = s.r.Intn(n)
	}
	m := s.inbox[i]
	s.inbox = append(s.inbox[:i], s.inbox[i+1:]...)
	if s.pol.dupPct > 0 && s.r.Intn(100) < s.pol.dupPct {
		// The peer sends the message twice in a row.  (The copy used to be queued behind
		// everything else; it could then arrive after the peer had announced another branch,
		// which no Bitcoin node does on an ordered connection - see DESIGN §7.)
		var dup wire.Message
		switch mm := m.(type) {
		case *wire.MsgHeaders:
			dup = mm
		case *wire.MsgBlock:
			if b := s.peer.tree.ByHash[*mm.Header.BlockHash()]; b != nil {
				dup = blockMsg(b.Msg(), false)
			}
		case *wire.MsgParseBlock:
			if b := s.peer.tree.ByHash[*mm.Header.BlockHash()]; b != nil {
				dup = blockMsg(b.Msg(), true)
			}
		}
		if dup != nil {
			s.inbox = append([]wire.Message{dup}, s.inbox...)
		}
	}
	s.handle(m)
}

// handle is one iteration of monitorIncoming for message m: handleMessage, then (next loop) check.
func (s *dsSim) handle(m wire.Message) {
	s.tracef("peer->node %s", describeMsg(m))
	if hm, ok := m.(*wire.MsgHeaders); ok {
		for _, h := range hm.Headers {
			s.handledHeaders[*h.BlockHash()] = true
		}
	}
	s.guard("handleMessage("+m.Command()+")", func() { s.e.node.handleMessage(s.e.ctx, m) })
	s.afterStep("msg:" + m.Command())
	s.guard("check()", func() { s.e.node.check(s.e.ctx) })
	s.feed()
}

func (s *dsSim) procStep() bool {
	s.sinceProc = 0
	stepped := false
	if s.popped != nil {
		blk := s.popped
		s.popped = nil
		s.guard("block processor (after pop)", func() { stepped = s.e.finishStep(blk) })
	} else if s.splitPct > 0 && s.r.Intn(100) < s.splitPct {
		// only the pop now: the incoming goroutine gets to run before ProcessBlock
		s.guard("block processor pop", func() { s.popped = s.e.node.state.NextBlock() })
		if s.popped != nil {
			s.tracef("processor popped a block (not yet processed)")
			s.afterStep("pop")
			return true
		}
		return false
	} else {
		s.guard("block processor step", func() { stepped = s.e.step() })
	}
	if !stepped {
		return false
	}
	s.tracef("processor step -> node height %d", s.e.node.blocks.LastHeight())
	s.afterStep("proc")
	s.feed()
	return true
}

func (s *dsSim) afterStep(what string) {
	s.steps++
	if n := s.e.node.state.BlocksRequestedCount(); n > s.maxRequested {
		s.maxRequested = n
		if n > 10 {
			s.find("C13", "C13/wire/window-exceeded", fmt.Sprintf("%d blocks requested and unprocessed after %s", n, what))
		}
	}
	// buffered-bytes accounting of the request queue (C13), also under adversarial deliveries
	q := s.e.node.state.VerifQueue()
	sum := 0
	for _, rq := range q.Requested {
		if rq.HasBody {
			sum += rq.Size
		}
	}
	if len(s.reqLive) > 0 {
		// a request that left the queue without being the block in processing is resolved: the
		// block was processed or refused, or the node abandoned its branch (requests cleared)
		inQueue := map[bitcoin.Hash32]bool{}
		for _, rq := range q.Requested {
			inQueue[rq.Hash] = true
		}
		if s.popped != nil {
			hd := s.popped.GetHeader()
			inQueue[*hd.BlockHash()] = true
		}
		for h := range s.reqLive {
			if !inQueue[h] {
				delete(s.reqLive, h)
			}
		}
	}
	if q.PendingSize != sum {
		s.find("C13", "C13/wire/bytes-accounting", fmt.Sprintf("after %s the buffered-bytes counter is %d, the buffered bodies sum to %d", what, q.PendingSize, sum))
	}
	if s.pol.probeEvery || (s.probeIf != nil && s.probeIf()) {
		s.probeChain(what)
	}
	if s.e.procErr != nil {
		s.find("C01", "C01/process-block-error", fmt.Sprintf("ProcessBlock failed with %v after %s (the real block processor goroutine ends here and no further block is processed)", s.e.procErr, what))
	}
}

// pump runs until quiescence: nothing queued in either direction, processor idle.
func (s *dsSim) pump(maxSteps int) { s.pumpUntil(maxSteps, nil) }

// pumpUntil pumps until quiescence or until stop() holds at a scheduling point.
func (s *dsSim) pumpUntil(maxSteps int, stop func() bool) {
	if s.pol.fairness <= 0 {
		s.pol.fairness = 8
	}
	for it := 0; it < maxSteps && !s.crashed; it++ {
		if stop != nil && stop() {
			return
		}
		if s.between != nil {
			s.between()
		}
		s.guard("check()", func() { s.e.node.check(s.e.ctx) })
		s.feed()
		if s.r.Intn(100) < s.pol.procPct || s.sinceProc >= s.pol.fairness {
			s.procStep()
		}
		if len(s.inbox) > 0 {
			s.sinceProc++
			s.deliver()
			continue
		}
		if s.procStep() {
			continue
		}
		// announcements of a changed tip (sendheaders mode)
		if a := s.peer.announce(); len(a) > 0 {
			s.inbox = append(s.inbox, a...)
			continue
		}
		if s.feed() {
			continue
		}
		return
	}
	if !s.crashed && maxSteps >= 20000 {
		s.find("C01", "C01/no-quiescence", fmt.Sprintf("no quiescence after %d scheduling steps", maxSteps))
	}
}

func (s *dsSim) converged() (bool, string) {
	chain := s.peer.tip.Chain()
	n := s.e.node
	if n.blocks.LastHeight() != s.peer.tip.Height {
		return false, fmt.Sprintf("node height %d, peer height %d", n.blocks.LastHeight(), s.peer.tip.Height)
	}
	for h := 0; h <= s.peer.tip.Height; h++ {
		got, err := n.blocks.Hash(s.e.ctx, h)
		if err != nil || *got != chain[h].Hash {
			return false, fmt.Sprintf("height %d differs (err=%v)", h, err)
		}
		if hh, ok := n.blocks.Height(&chain[h].Hash); !ok || hh != h {
			return false, fmt.Sprintf("Height(hash of %d)=%d,%v", h, hh, ok)
		}
	}
	return true, ""
}

// settle pumps and, if the node has not converged, lets the request time-outs fire (ageing), at
// most three rounds, as the property allows.
func (s *dsSim) settle(what string) {
	s.pump(20000)
	for round := 0; round < 3 && !s.crashed; round++ {
		if ok, _ := s.converged(); ok {
			return
		}
		s.e.node.state.VerifAge(11 * time.Minute)
		if err := s.e.node.state.CheckTimeouts(); err != nil {
			s.tracef("time-out fired (%v): reconnect", err)
			s.reconnect()
		} else {
			s.tracef("aged 11 min: no time-out pending")
		}
		s.pump(20000)
	}
	if ok, why := s.converged(); !ok && !s.crashed {
		s.stalled = true
		q := s.e.node.state.VerifQueue()
		s.find("C01", "C01/stall/"+what, fmt.Sprintf("after %s and three time-out rounds the node has not converged: %s; requested=%d to-request=%d ready=%v headersRequested=%v pendingBytes=%d", what, why, len(q.Requested), len(q.ToRequest), s.e.node.state.IsReady(), s.e.node.state.VerifHeadersRequested(), q.PendingSize))
	}
}

// ---- structural probe (C02) ------------------------------------------------------------------------------

func (s *dsSim) probeChain(what string) {
	n := s.e.node
	tip := n.blocks.LastHeight()
	lo := tip - 40
	if lo < 1 {
		lo = 1
	}
	var prev *bitcoin.Hash32
	if lo > 0 {
		prev, _ = n.blocks.Hash(s.e.ctx, lo-1)
	}
	for h := lo; h <= tip; h++ {
		hd, err := n.blocks.Header(s.e.ctx, h)
		if err != nil {
			s.find("C02", "C02/header-unreadable", fmt.Sprintf("Header(%d) fails with tip %d after %s: %v", h, tip, what, err))
			return
		}
		if prev != nil && hd.PrevBlock != *prev {
			s.find("C02", "C02/chain-not-linked", fmt.Sprintf("after %s: Header(%d).PrevBlock != Hash(%d) (tip %d)", what, h, h-1, tip))
			return
		}
		hash := hd.BlockHash()
		if hh, ok := n.blocks.Height(hash); !ok || hh != h {
			s.find("C02", "C02/maps-not-inverse", fmt.Sprintf("after %s: Height(Hash(%d)) = %d,%v (tip %d)", what, h, hh, ok, tip))
			return
		}
		prev = hash
	}
	if lh := n.blocks.LastHash(); prev != nil && *lh != *prev {
		s.find("C02", "C02/last-hash-not-tip", fmt.Sprintf("after %s: LastHash is not Hash(%d)", what, tip))
	}
	// every hash of the tree the repository claims to contain must map back
	budget := 6 // older heights (served from stored files, costly) are sampled
	for h, b := range s.peer.tree.ByHash {
		h := h
		if hh, ok := n.blocks.Height(&h); ok {
			if hh < tip-60 {
				if budget == 0 {
					continue
				}
				budget--
			}
			got, err := n.blocks.Hash(s.e.ctx, hh)
			if err != nil || *got != h {
				s.find("C02", "C02/maps-not-inverse", fmt.Sprintf("after %s: Contains(block %d of the tree) but Hash(%d) is another block (tip %d)", what, b.Height, hh, tip))
				return
			}
		}
	}
}

// checkCallbacks judges the HandleHeaders callback sequence of every handler (C02) and the
// getdata sequence (C13) at the end of a scenario.
func (s *dsSim) checkCallbacks(handlers int) {
	// C13: a fork among not-yet-processed blocks is followed - the new branch is requested
	// (unless the peer left that branch again before the node could)
	for _, b := range s.forkExpect {
		if b.IsAncestorOf(s.peer.tip) && !s.everRequested[b.Hash] && !s.crashed {
			s.find("C13", "C13/wire/fork-among-pending-not-followed", fmt.Sprintf("the peer forked at block %d while the node had it requested or queued; the first block of the new branch (height %d) was never requested", b.Height-1, b.Height))
		}
	}
	evs := s.e.log.snapshot()
	for h := 0; h < handlers; h++ {
		// shadow chain from callbacks: height -> header
		shadow := map[int]wire.BlockHeader{}
		top := -1
		first := true
		for _, ev := range evs {
			if ev.Kind != "headers" || ev.Handler != h {
				continue
			}
			if !first {
				if ev.Height > top+1 {
					sig := "C02/callback-heights-not-contiguous"
					if s.startOrphanedAtRestart && *ev.Header.BlockHash() == s.e.cfg.StartHash {
						sig += "/resumed-at-start-block-orphaned-across-restart"
					}
					s.find("C02", sig, fmt.Sprintf("handler %d: HandleHeaders height %d after top %d", h, ev.Height, top))
					return
				}
				if par, ok := shadow[ev.Height-1]; ok && ev.Header.PrevBlock != *par.BlockHash() {
					sig, more := "C02/callback-parent-mismatch", ""
					if s.startOrphanedAtRestart && *ev.Header.BlockHash() == s.e.cfg.StartHash {
						// announcements resumed at the start block itself, not at fork+1
						sig += "/resumed-at-start-block-orphaned-across-restart"
						more = " (the start block had been reorganised away, the node was restarted on the other branch, and the start block's branch came back: blocks below the start block were stored silently)"
					}
					s.find("C02", sig, fmt.Sprintf("handler %d: block announced at height %d does not have the block announced at %d as parent%s", h, ev.Height, ev.Height-1, more))
					return
				}
			}
			first = false
			shadow[ev.Height] = ev.Header
			for k := range shadow {
				if k > ev.Height {
					delete(shadow, k)
				}
			}
			top = ev.Height
			if b := s.peer.tree.ByHash[*ev.Header.BlockHash()]; b != nil && b.Height != ev.Height {
				s.find("C02", "C02/callback-wrong-height", fmt.Sprintf("handler %d: block of height %d announced at height %d", h, b.Height, ev.Height))
				return
			}
		}
	}
}

// judgeBlockRequests checks a getdata(block) message at the moment it goes on the wire (C13): a
// block is not requested again on a connection while its earlier request is still outstanding
// (the node did not abandon its branch in between) or while the node holds it, and every requested
// block's parent was requested earlier on this connection or is already held / being processed by
// the node (chain order).  Called right after the step that emitted the message; reqLive reflects
// the end of that step for every earlier request.
func (s *dsSim) judgeBlockRequests(gd *wire.MsgGetData) {
	if s.reqThisConn == nil {
		s.reqThisConn = map[bitcoin.Hash32]int{}
	}
	if s.reqLive == nil {
		s.reqLive = map[bitcoin.Hash32]bool{}
	}
	for _, iv := range gd.InvList {
		if iv.Type != wire.InvTypeBlock {
			continue
		}
		s.wireRequests++
		b := s.peer.tree.ByHash[iv.Hash]
		if b == nil {
			s.find("C13", "C13/wire/unknown-block-requested", "getdata for a hash the peer never announced")
			continue
		}
		h := iv.Hash
		if s.reqLive[h] {
			s.find("C13", "C13/wire/block-requested-twice", fmt.Sprintf("block %d (%s) requested again on one connection while its earlier request was still outstanding (its branch was not abandoned in between)", b.Height, h.String()[:8]))
		} else if s.e.node.blocks.Contains(&h) {
			s.find("C13", "C13/wire/held-block-requested", fmt.Sprintf("block %d (%s) requested although the node holds it", b.Height, h.String()[:8]))
		}
		if s.reqThisConn[h] > 0 {
			s.rerequests++
		}
		s.reqThisConn[h]++
		s.reqLive[h] = true
		if s.everRequested == nil {
			s.everRequested = map[bitcoin.Hash32]bool{}
		}
		s.everRequested[h] = true
		if b.Parent != nil {
			_, parentRequested := s.reqThisConn[b.Parent.Hash]
			ph := b.Parent.Hash
			if !parentRequested && !s.e.node.blocks.Contains(&ph) && !s.e.node.state.BlockIsRequested(&ph) {
				s.find("C13", "C13/wire/request-out-of-chain-order", fmt.Sprintf("block %d requested although its parent was neither requested on this connection nor held by the node", b.Height))
			}
		}
	}
}

// checkWire judges the order of block requests the peer received (C13, wire level).
func (s *dsSim) checkWire() {
	seen := map[bitcoin.Hash32]int{}
	for i, h := range s.peer.getDataSeq {
		b := s.peer.tree.ByHash[h]
		if b == nil {
			s.find("C13", "C13/wire/unknown-block-requested", "getdata for a hash that was never announced")
			continue
		}
		seen[h]++
		_ = i
	}
}

func (s *dsSim) witness() map[string]interface{} {
	return map[string]interface{}{"trace": s.trace, "callbacks": s.e.log.strings(0)}
}

var _ = client.Headers{}
