//go:build verif

package storage

import (
	"fmt"
	"strings"
	"sync"
	"sync/atomic"
	"testing"
	"time"

	"github.com/tokenized/pkg/wire"
	"github.com/tokenized/spynode/internal/verifkit"
)

// ---- C10 / C09 under concurrency: the block repository is used by two goroutines -----------------------
//
// In the node the block processor (Add, Save after every block when in sync, the shutdown save)
// and the incoming goroutine (Revert on a reorg, the queries behind getheaders / GetHeaders) share
// one BlockRepository.  Here a save whose storage write is slow overlaps a reorg that crosses a
// header-file boundary while readers ask for the tip; afterwards the storage must hold what the
// repository holds (a fresh repository loads the same chain), and "-1 = tip" must always answer.

func TestVerif_C10Conc(t *testing.T) { blockRepoConc(t, "C10") }

// the same rounds judged for C09: "-1 meaning tip" answers while a reorg is running
func TestVerif_C09Conc(t *testing.T) { blockRepoConc(t, "C09") }

func blockRepoConc(t *testing.T, prop string) {
	rep := verifkit.NewReport(prop)
	defer rep.Write()
	n := verifkit.N(160, 8000)
	for ci := 0; ci < n; ci++ {
		if !verifkit.Mine(ci) {
			continue
		}
		r := verifkit.Rand("C10/conc", ci)
		e, err := c09New(ci%2 == 0)
		if err != nil {
			rep.Inconc(ci, err.Error())
			continue
		}
		base := []int{1000, 1001, 1003, 2000, 2002, 1500, 30}[r.Intn(7)]
		for i := 0; i < base; i++ {
			h := e.next()
			if err := e.repo.Add(c09ctx, &h); err != nil {
				rep.Inconc(ci, "add: "+err.Error())
				break
			}
			e.model = append(e.model, h)
		}
		e.repo.Save(c09ctx)
		// one more block that is only in memory, as after ProcessBlock's Add
		h := e.next()
		e.repo.Add(c09ctx, &h)
		e.model = append(e.model, h)
		tip := len(e.model) - 1
		// the reorg: back by 1..12 (crossing the file boundary when the tip is just above one)
		depth := 1 + r.Intn(12)
		if depth > tip-1 {
			depth = tip - 1
		}
		target := tip - depth
		newLen := depth + r.Intn(3)
		newestKey := fmt.Sprintf("spynode/blocks/%08x", tip/1000)
		// slow writes of the newest header file
		// (only the first one: the save's; a reorg that gets to run meanwhile writes at full speed)
		var parkedOnce int32
		e.store.Park(func(op verifkit.Op) bool {
			return op.Kind == verifkit.OpWrite && op.Key == newestKey && atomic.CompareAndSwapInt32(&parkedOnce, 0, 1)
		})
		release := time.AfterFunc(time.Duration(20+r.Intn(60))*time.Millisecond, e.store.Release)
		var wg sync.WaitGroup
		var tipErrors int32
		var firstTipErr atomic.Value
		stopReaders := make(chan struct{})
		for k := 0; k < 2; k++ {
			wg.Add(1)
			go func() {
				defer wg.Done()
				for {
					select {
					case <-stopReaders:
						return
					default:
					}
					if _, err := e.repo.Header(c09ctx, -1); err != nil {
						if atomic.AddInt32(&tipErrors, 1) == 1 {
							firstTipErr.Store(err.Error())
						}
					}
				}
			}()
		}
		var saveErr, revertErr error
		var ww sync.WaitGroup
		ww.Add(2)
		go func() { // the block processor's save
			defer ww.Done()
			saveErr = e.repo.Save(c09ctx)
		}()
		go func() { // the incoming goroutine's reorg, then the new branch is added
			defer ww.Done()
			time.Sleep(time.Duration(2+r.Intn(8)) * time.Millisecond)
			revertErr = e.repo.Revert(c09ctx, target)
		}()
		done := make(chan struct{})
		go func() { ww.Wait(); close(done) }()
		select {
		case <-done:
		case <-time.After(20 * time.Second):
			rep.Inconc(ci, "Save / Revert did not return")
			release.Stop()
			e.store.Release()
			close(stopReaders)
			continue
		}
		release.Stop()
		e.store.Release()
		if revertErr == nil && saveErr == nil && prop == "C10" {
			// a crash right now: what the storage holds must load, and it must be the chain the
			// repository has just been reverted to
			nr := NewBlockRepository(e.cfg, e.store.Clone())
			if err := nr.Load(c09ctx); err != nil {
				rep.Finding(ci, "C10/concurrent/load-failed", fmt.Sprintf("a save overlapped a reorg from %d back to %d; the stored chain does not load: %v", tip, target, err), nil)
			} else if nr.LastHeight() != target || *nr.LastHash() != *e.model[target].BlockHash() {
				rep.Finding(ci, "C10/concurrent/stored-chain-differs", fmt.Sprintf("a save overlapped a reorg from %d back to %d; a fresh repository loads height %d", tip, target, nr.LastHeight()), nil)
			}
			rep.Event("storage_images_loaded_after_overlap", 1)
		}
		if revertErr == nil {
			e.model = e.model[:target+1]
			for i := 0; i < newLen; i++ {
				nh := e.next()
				if err := e.repo.Add(c09ctx, &nh); err != nil {
					break
				}
				e.model = append(e.model, nh)
			}
		}
		close(stopReaders)
		wg.Wait()
		shape := fmt.Sprintf("tip=%d/depth=%d/cross=%v", tip%1000, depth, target/1000 != tip/1000)
		if prop == "C09" {
			if atomic.LoadInt32(&tipErrors) > 0 {
				rep.Finding(ci, "C09/concurrent/tip-query-failed", fmt.Sprintf("Header(-1) failed %d times while a reorg was running: %v (%s)", tipErrors, firstTipErr.Load(), shape), nil)
			}
			if v := e.check(); v != nil && !strings.HasPrefix(v.rule, "panic") && saveErr == nil && revertErr == nil {
				rep.Finding(ci, "C09/concurrent/"+v.rule, v.detail+" ("+shape+")", nil)
			}
			rep.Event("concurrent_tip_queries_rounds", 1)
			rep.Case(shape, true)
			continue
		}
		if false {
			rep.Finding(ci, "C09/concurrent/tip-query-failed", fmt.Sprintf("Header(-1) failed %d times while a reorg was running: %v (%s)", tipErrors, firstTipErr.Load(), shape), nil)
		}
		if saveErr != nil || revertErr != nil {
			rep.Finding(ci, "C10/concurrent/operation-failed", fmt.Sprintf("save=%v revert=%v (%s)", saveErr, revertErr, shape), nil)
			continue
		}
		// in memory: equals the list
		if v := e.check(); v != nil && !strings.HasPrefix(v.rule, "panic") {
			rep.Finding(ci, "C10/concurrent/memory-"+v.rule, v.detail+" ("+shape+")", nil)
		}
		// on storage, after what Run saves at shutdown: a fresh repository loads the same chain
		e.repo.Save(c09ctx)
		nr := NewBlockRepository(e.cfg, e.store.Clone())
		if err := nr.Load(c09ctx); err != nil {
			rep.Finding(ci, "C10/concurrent/load-failed", fmt.Sprintf("after a save overlapped a reorg the stored chain does not load: %v (%s)", err, shape), nil)
		} else if nr.LastHeight() != len(e.model)-1 || *nr.LastHash() != *e.model[len(e.model)-1].BlockHash() {
			rep.Finding(ci, "C10/concurrent/stored-chain-differs", fmt.Sprintf("a fresh repository loads height %d, the repository in use is at %d (%s)", nr.LastHeight(), len(e.model)-1, shape), nil)
		} else {
			bad := ""
			for hh := len(e.model) - 1; hh >= 0 && hh > len(e.model)-40; hh-- {
				got, err := nr.Hash(c09ctx, hh)
				if err != nil || *got != *e.model[hh].BlockHash() {
					bad = fmt.Sprintf("height %d", hh)
				}
			}
			if bad != "" {
				rep.Finding(ci, "C10/concurrent/stored-chain-differs", "a fresh repository loads another header at "+bad+" ("+shape+")", nil)
			}
		}
		rep.Event("concurrent_save_revert_rounds", 1)
		rep.Case(shape, true)
		if rep.WantSample() {
			rep.Sample(map[string]interface{}{"engine": "two goroutines on one BlockRepository, slow write of the newest header file", "tip": tip, "reorg_depth": depth})
		}
	}
	_ = wire.BlockHeader{}
}
