//go:build verif

package spynode

import (
	"fmt"
	"math/rand"
	"sync"
	"testing"
	"time"

	"github.com/tokenized/pkg/bitcoin"
	"github.com/tokenized/pkg/wire"
	"github.com/tokenized/spynode/internal/platform/config"
	"github.com/tokenized/spynode/internal/verifkit"
)

// ---- C12 on the L1 engine: real UntrustedNode connections to hostile peers over TCP --------------------
//
// The node under test runs Node.Run with UntrustedCount > 0; its peer repository holds the
// addresses of hostile listeners.  The trusted peer is well behaved (and slow to serve blocks, so
// that the hostile peers can race it).

type hostilePeer struct {
	*tcpPeer
	kind     string // verified | liar-unknown | liar-low | liar-unlinked | liar-empty | liar-silent
	mu2      sync.Mutex
	verified bool // the node sent "mempool": it listens to this peer
	txAsked  int  // getdata(tx) received
	acts     map[string]int
	sentTxs  map[bitcoin.Hash32]bool
	started  bool
	done     chan struct{}
}

type c12World struct {
	tree     *verifkit.Tree
	trusted  *tcpPeer
	fake     map[bitcoin.Hash32]bool // blocks only hostile peers know
	fakeMu   sync.Mutex
	uni      *verifkit.Universe
	sub      []byte
	nodeBase int // node height when the hostile peers were started
}

func (w *c12World) trustedTip() *verifkit.Block {
	w.trusted.mu.Lock()
	defer w.trusted.mu.Unlock()
	return w.trusted.sim.tip
}

// fakeChild builds a block on parent that the trusted peer never announces.
func (w *c12World) fakeChild(parent *verifkit.Block) *verifkit.Block {
	b := w.tree.Extend(parent, nil)
	w.fakeMu.Lock()
	w.fake[b.Hash] = true
	w.fakeMu.Unlock()
	return b
}

func newHostilePeer(w *c12World, kind string, r *rand.Rand, foreign *verifkit.Block) (*hostilePeer, error) {
	tp, err := newTCPPeer(w.tree, w.trustedTip())
	if err != nil {
		return nil, err
	}
	h := &hostilePeer{tcpPeer: tp, kind: kind, acts: map[string]int{}, sentTxs: map[bitcoin.Hash32]bool{}, done: make(chan struct{})}
	seed := r.Int63()
	tp.hook = func(tc *tcpConn, msg wire.Message) ([]wire.Message, bool) {
		switch m := msg.(type) {
		case *wire.MsgMemPool:
			h.mu2.Lock()
			h.verified = true
			h.mu2.Unlock()
			return nil, true
		case *wire.MsgGetData:
			for _, iv := range m.InvList {
				if iv.Type == wire.InvTypeTx {
					h.mu2.Lock()
					h.txAsked++
					h.mu2.Unlock()
				}
			}
		case *wire.MsgGetHeaders:
			// keep the model's tip current: this is the node verifying our chain
			tp.setTip(w.trustedTip())
			h.mu2.Lock()
			first := !h.started
			h.started = true
			h.mu2.Unlock()
			if first {
				go func() {
					defer close(h.done)
					h.misbehave(w, tc, rand.New(rand.NewSource(seed)))
				}()
			} else {
				return nil, false
			}
			tip := w.trustedTip()
			switch kind {
			case "liar-unknown":
				hm := wire.NewMsgHeaders()
				for _, b := range foreign.Chain()[1:] {
					hd := b.Header
					hm.AddBlockHeader(&hd)
				}
				return []wire.Message{hm}, true
			case "liar-low":
				// linked, known, but starting far below the tip
				hm := wire.NewMsgHeaders()
				for _, b := range tip.Chain()[1:] {
					hd := b.Header
					hm.AddBlockHeader(&hd)
				}
				return []wire.Message{hm}, true
			case "liar-unlinked":
				hm := wire.NewMsgHeaders()
				hd := tip.Header
				hm.AddBlockHeader(&hd)
				hd2 := foreign.Header
				hm.AddBlockHeader(&hd2)
				return []wire.Message{hm}, true
			case "liar-empty":
				return []wire.Message{wire.NewMsgHeaders()}, true
			case "liar-silent":
				return nil, true
			}
		}
		return nil, false
	}
	return h, nil
}

func (h *hostilePeer) act(kind string) {
	h.mu2.Lock()
	h.acts[kind]++
	h.mu2.Unlock()
}

// misbehave is what the hostile peer does once the node has asked it for headers.
func (h *hostilePeer) misbehave(w *c12World, tc *tcpConn, r *rand.Rand) {
	time.Sleep(time.Duration(60+r.Intn(120)) * time.Millisecond)
	n := 8 + r.Intn(10)
	for i := 0; i < n; i++ {
		tip := w.trustedTip()
		var err error
		switch k := r.Intn(100); {
		case k < 22: // a relevant transaction, announced or bare
			tx := w.uniBuild(r)
			id := *tx.TxHash()
			h.tcpPeer.mu.Lock()
			h.tcpPeer.sim.txByID[id] = tx
			h.tcpPeer.mu.Unlock()
			h.mu2.Lock()
			h.sentTxs[id] = true
			h.mu2.Unlock()
			if r.Intn(2) == 0 {
				h.act("tx-inv")
				inv := wire.NewMsgInv()
				inv.AddInvVect(wire.NewInvVect(wire.InvTypeTx, &id))
				err = tc.write(inv)
			} else {
				h.act("tx-bare")
				err = tc.write(tx)
			}
		case k < 34: // headers of a branch the trusted peer does not have
			h.act("fork-headers")
			base := tip
			if r.Intn(2) == 0 && tip.Parent != nil {
				base = tip.Parent
			}
			hm := wire.NewMsgHeaders()
			b := base
			for j := 0; j < 1+r.Intn(3); j++ {
				b = w.fakeChild(b)
				hd := b.Header
				hm.AddBlockHeader(&hd)
			}
			err = tc.write(hm)
		case k < 44: // a block of such a branch, unsolicited
			h.act("block-fake-branch")
			b := w.fakeChild(tip)
			err = tc.write(b.Msg())
		case k < 64: // the header of a block the node is waiting for, with another body
			chain := tip.Chain()
			lo := w.nodeBase + 1
			if lo > tip.Height {
				lo = tip.Height
			}
			b := chain[lo+r.Intn(tip.Height-lo+1)]
			if b.Height == 0 {
				break
			}
			h.act("block-bogus-body")
			body := []*wire.MsgTx{b.Txs[0], verifkit.Coinbase(31337, uint32(r.Intn(100000)))}
			err = tc.write(b.MsgWithTxs(body))
		case k < 74: // the genuine block, racing the trusted peer
			chain := tip.Chain()
			lo := w.nodeBase + 1
			if lo > tip.Height {
				lo = tip.Height
			}
			b := chain[lo+r.Intn(tip.Height-lo+1)]
			if b.Height == 0 {
				break
			}
			h.act("block-genuine")
			err = tc.write(b.Msg())
		case k < 80: // block inventory
			h.act("inv-fake-block")
			b := w.fakeChild(tip)
			inv := wire.NewMsgInv()
			inv.AddInvVect(wire.NewInvVect(wire.InvTypeBlock, &b.Hash))
			err = tc.write(inv)
		case k < 86: // addresses nobody listens on
			h.act("addr")
			am := wire.NewMsgAddr()
			for j := 0; j < 3; j++ {
				am.AddAddress(wire.NewNetAddressIPPort([]byte{127, 0, 0, 1}, uint16(1+r.Intn(3)), 0))
			}
			err = tc.write(am)
		case k < 92:
			h.act("version-again")
			err = tc.write(wire.NewMsgVersion(wire.NewNetAddressIPPort([]byte{127, 0, 0, 1}, 1, 0), wire.NewNetAddressIPPort([]byte{127, 0, 0, 1}, 2, 0), 9, int32(tip.Height+1000)))
		default:
			h.act("notfound")
			nf := wire.NewMsgNotFound()
			nf.AddInvVect(wire.NewInvVect(wire.InvTypeBlock, &tip.Hash))
			err = tc.write(nf)
		}
		if err != nil {
			h.act("connection-closed-by-node")
			return
		}
		time.Sleep(time.Duration(15+r.Intn(70)) * time.Millisecond)
	}
}

func (w *c12World) uniBuild(r *rand.Rand) *wire.MsgTx {
	w.fakeMu.Lock()
	defer w.fakeMu.Unlock()
	return w.uni.Build(r, verifkit.TxSpec{Inputs: []wire.OutPoint{w.uni.Order[r.Intn(len(w.uni.Order))]}, Outputs: [][]byte{verifkit.P2PKH(w.sub)}})
}

func TestVerif_C12L1(t *testing.T) {
	rep := verifkit.NewReport("C12")
	defer rep.Write()
	n := verifkit.N(32, 800)
	kinds := []string{"verified", "verified", "verified", "liar-unknown", "liar-low", "liar-unlinked", "liar-empty", "liar-silent"}
	for ci := 0; ci < n; ci++ {
		if !verifkit.Mine(ci) {
			continue
		}
		r := verifkit.Rand("C12/L1", ci)
		tree := verifkit.NewTree()
		initial := 14 + r.Intn(20)
		tip := tree.ExtendN(tree.Genesis, initial)
		trusted, err := newTCPPeer(tree, tip)
		if err != nil {
			rep.Inconc(ci, err.Error())
			continue
		}
		foreignTree := verifkit.NewTree()
		foreign := foreignTree.ExtendN(foreignTree.Genesis, 5)
		w := &c12World{tree: tree, trusted: trusted, fake: map[bitcoin.Hash32]bool{}, uni: verifkit.NewUniverse(r, 8), sub: randB(r, 20)}
		nHostile := 2 + r.Intn(3)
		var hostile []*hostilePeer
		fp := ""
		for i := 0; i < nHostile; i++ {
			k := kinds[r.Intn(len(kinds))]
			if i == 0 {
				k = "verified"
			}
			hp, err := newHostilePeer(w, k, r, foreign)
			if err != nil {
				rep.Inconc(ci, err.Error())
				continue
			}
			hostile = append(hostile, hp)
			fp += k[:6] + ","
		}
		store := verifkit.NewStore(r.Intn(2) == 0)
		startHash := tip.Ancestor(1 + r.Intn(initial-8)).Hash
		log := newEventLog()
		e := newL1Opt(trusted, trusted.addr(), store, startHash, [][]byte{w.sub}, w.uni, log, func(c *config.Config) {
			c.UntrustedCount = len(hostile)
		})
		setupOK := true
		for _, hp := range hostile {
			if err := e.node.AddPeer(quietCtx, hp.addr(), 5); err != nil {
				rep.Inconc(ci, "AddPeer: "+err.Error())
				setupOK = false
			}
		}
		if !setupOK {
			continue
		}
		e.run()
		converge := func(what string) string {
			for round := 0; round < 4; round++ {
				target := w.trustedTip()
				if waitCond(4*time.Second, func() bool { ok, _ := l1ChainEqual(e, target); return ok }) {
					return ""
				}
				if round == 3 {
					break
				}
				e.node.state.VerifAge(11 * time.Minute)
				time.Sleep(5500 * time.Millisecond)
			}
			_, why := l1ChainEqual(e, w.trustedTip())
			return fmt.Sprintf("after %s: %s", what, why)
		}
		stall := converge("initial sync")
		w.nodeBase = e.node.blocks.LastHeight()
		if stall == "" {
			// the untrusted connections are opened once the node is in sync (polled every 0.5 s)
			waitCond(8*time.Second, func() bool {
				for _, hp := range hostile {
					hp.mu2.Lock()
					st := hp.started
					hp.mu2.Unlock()
					if !st {
						return false
					}
				}
				return true
			})
			// the trusted chain moves while the hostile peers act; the trusted peer is slow with blocks
			trusted.mu.Lock()
			trusted.blockDelay = time.Duration(20+r.Intn(120)) * time.Millisecond
			trusted.mu.Unlock()
			steps := 2 + r.Intn(3)
			for s := 0; s < steps; s++ {
				cur := w.trustedTip()
				trusted.mu.Lock()
				if r.Intn(3) == 0 && cur.Height > w.nodeBase {
					d := 1 + r.Intn(2)
					nt := cur.Ancestor(cur.Height - d)
					for i := 0; i < d+1+r.Intn(2); i++ {
						nt = tree.Extend(nt, nil)
					}
					trusted.sim.tip = nt
					fp += fmt.Sprintf("r%d", d)
				} else {
					trusted.sim.tip = tree.ExtendN(cur, 1+r.Intn(4))
					fp += "e"
				}
				trusted.mu.Unlock()
				time.Sleep(time.Duration(100+r.Intn(300)) * time.Millisecond)
			}
			for _, hp := range hostile {
				hp.mu2.Lock()
				st := hp.started
				hp.mu2.Unlock()
				if st {
					select {
					case <-hp.done:
					case <-time.After(6 * time.Second):
					}
				}
			}
			stall = converge("hostile phase " + fp)
		}
		time.Sleep(450 * time.Millisecond) // longer than the safe delay: a wrongly vouched tx would be reported safe by now
		stopped, _ := e.stop(15 * time.Second)
		if !stopped {
			rep.Inconc(ci, "Stop did not return (C19 matter)")
		}
		for _, hp := range hostile {
			hp.shutdown()
		}
		trusted.shutdown()
		// ---- judge (everything has stopped) -------------------------------------------------------
		acts := map[string]int{}
		verifiedN, startedN := 0, 0
		nodeDump := func() []string {
			var out []string
			lh := e.node.blocks.LastHeight()
			out = append(out, fmt.Sprintf("LastHeight=%d LastHash=%s ready=%v", lh, e.node.blocks.LastHash().String()[:8], e.node.state.IsReady()))
			for h := lh; h >= 0 && h > lh-6; h-- {
				hh, err := e.node.blocks.Hash(quietCtx, h)
				if err != nil {
					out = append(out, fmt.Sprintf("Hash(%d): %v", h, err))
				} else {
					out = append(out, fmt.Sprintf("Hash(%d)=%s", h, hh.String()[:8]))
				}
			}
			q := e.node.state.VerifQueue()
			out = append(out, fmt.Sprintf("queue: requested=%d toRequest=%d lastSaved=%s pendingBytes=%d", len(q.Requested), len(q.ToRequest), q.LastSaved.String()[:8], q.PendingSize))
			return out
		}
		find := func(sig, detail string) {
			rep.Finding(ci, sig, detail+" | peers "+fp+" actions "+fmt.Sprint(acts), map[string]interface{}{"peers": fp, "actions": acts, "callbacks": log.strings(0), "trusted_wire": trusted.wireLog(), "node": nodeDump()})
		}
		for _, hp := range hostile {
			hp.mu2.Lock()
			for k, v := range hp.acts {
				acts[hp.kind[:4]+":"+k] += v
			}
			if hp.started {
				startedN++
			}
			if hp.verified {
				verifiedN++
				if hp.kind != "verified" {
					find("C12/L1/listened-to-unproven-peer/"+hp.kind, "the node sent its mempool request to (listens to) a peer that answered the chain check with "+hp.kind)
				}
			}
			if hp.kind != "verified" && hp.txAsked > 0 {
				find("C12/L1/unverified-peer-asked-for-tx/"+hp.kind, "getdata(tx) sent to a peer that never proved it is on the same chain")
			}
			hp.mu2.Unlock()
		}
		if stall != "" {
			find("C12/L1/stall", "real Node.Run with hostile untrusted connections does not follow the trusted peer: "+stall)
		}
		for _, ev := range log.snapshot() {
			switch ev.Kind {
			case "headers":
				h := *ev.Header.BlockHash()
				w.fakeMu.Lock()
				fk := w.fake[h]
				w.fakeMu.Unlock()
				if fk || tree.ByHash[h] == nil {
					find("C12/L1/untrusted-block-announced", fmt.Sprintf("HandleHeaders announced block %s at height %d, which only an untrusted peer sent", h.String()[:8], ev.Height))
				}
			case "tx", "update":
				if mp := ev.State.MerkleProof; mp != nil {
					find("C12/L1/confirmation-from-untrusted", "a notification carries a merkle proof although the trusted chain's blocks contain no relevant transaction")
				}
				if ev.State.Safe {
					find("C12/L1/untrusted-tx-reported-safe", "a transaction only untrusted peers sent was reported safe")
				}
				for _, hp := range hostile {
					hp.mu2.Lock()
					if hp.sentTxs[ev.TxID] && hp.kind != "verified" {
						find("C12/L1/unverified-peer-tx-delivered/"+hp.kind, "a transaction sent by a peer that never proved its chain reached a handler")
					}
					hp.mu2.Unlock()
				}
				rep.Event("l1_untrusted_tx_notifications", 1)
			}
		}
		// the stored chain must be the trusted one as well
		for h := range w.fake {
			h := h
			if e.node.blocks.Contains(&h) {
				find("C12/L1/untrusted-block-stored", "the block repository holds a block only an untrusted peer sent")
				break
			}
		}
		for k, v := range acts {
			rep.Event("l1_hostile:"+k, int64(v))
		}
		rep.Event("l1_scenarios", 1)
		rep.Event("l1_untrusted_connections_started", int64(startedN))
		rep.Event("l1_untrusted_connections_listened_to", int64(verifiedN))
		if startedN == 0 {
			// the node did not get round to opening an untrusted connection in this scenario
			// (its connection manager polls): nothing hostile happened, the case is trivial
			rep.Event("l1_scenarios_without_untrusted_connection", 1)
			rep.Case("L1/no-untrusted-connection", false)
			continue
		}
		rep.Case("L1/"+fp+fmt.Sprint(len(acts)), verifiedN > 0)
		if rep.WantSample() {
			rep.Sample(map[string]interface{}{"engine": "L1", "peers": fp, "hostile_actions": acts, "listened_to": verifiedN})
		}
	}
}
