#!/bin/bash
# validates MANIFEST.json and every evidence file against the given schemas
python3-vt - <<'PY'
import json,jsonschema,glob
jsonschema.validate(json.load(open('/verif/MANIFEST.json')), json.load(open('/root/.vp/MANIFEST.schema.json')))
es=json.load(open('/root/.vp/EVIDENCE.schema.json'))
for f in sorted(glob.glob('/verif/evidence/C*.json')):
    try:
        jsonschema.validate(json.load(open(f)), es)
    except Exception as e:
        print("INVALID", f, str(e)[:300])
print('validated')
PY
