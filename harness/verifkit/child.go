//go:build verif

package verifkit

import (
	"runtime/debug"
	"os/signal"
	"bufio"
	"encoding/hex"
	"fmt"
	"io"
	"os"
	"os/exec"
	"regexp"
	"runtime"
	"strings"
	"syscall"
	"time"
)

// Child-process probe: code that may die with a process-fatal error (out of memory, stack
// overflow, concurrent map write) is run in a child of the same test binary under an address
// space limit.  The parent sends one input per line and attributes a death to the input in flight.

type Crash struct {
	Kind  string `json:"kind"`  // oom | panic | fatal | timeout | exit
	Fatal string `json:"fatal"` // the "fatal error: ..." / "panic: ..." line
	Frame string `json:"frame"` // first non-runtime function of the dying goroutine
	Log   string `json:"log"`   // head of the child's stderr
	full  string // more of it (goroutine dumps)
}

type Child struct {
	kind    string
	cmd     *exec.Cmd
	in      io.WriteCloser
	out     *bufio.Reader
	errPath string
	Spawns   int
	Timeout  time.Duration
	CPULimit float64 // seconds
}

const childEnv = "VERIF_CHILD"

// ChildKind returns the probe kind if this process is a probe child.
func ChildKind() string { return os.Getenv(childEnv) }

func NewChild(kind string) *Child { return &Child{kind: kind, Timeout: 20 * time.Second} }

func (c *Child) start() error {
	c.Spawns++
	f, err := os.CreateTemp(os.Getenv("VERIF_WORK"), "child-*.stderr")
	if err != nil {
		f, err = os.CreateTemp("", "child-*.stderr")
		if err != nil {
			return err
		}
	}
	c.errPath = f.Name()
	cmd := exec.Command(os.Args[0], "-test.run", "^TestVerif_Child$", "-test.timeout", "0")
	cmd.Env = append(os.Environ(), childEnv+"="+c.kind, "VERIF_OUT=", "GORACE=")
	cmd.Stderr = f
	in, err := cmd.StdinPipe()
	if err != nil {
		return err
	}
	out, err := cmd.StdoutPipe()
	if err != nil {
		return err
	}
	if err := cmd.Start(); err != nil {
		return err
	}
	f.Close()
	c.cmd, c.in, c.out = cmd, in, bufio.NewReaderSize(out, 1<<20)
	return nil
}

func (c *Child) Close() {
	if c.cmd != nil {
		c.in.Close()
		c.cmd.Process.Kill()
		c.cmd.Wait()
		os.Remove(c.errPath)
		c.cmd = nil
	}
}

var frameRe = regexp.MustCompile(`^([A-Za-z0-9_./\-]+(?:\.\(\*?[A-Za-z0-9_]+\))?\.[A-Za-z0-9_.]+)\(`)

func parseCrash(log string) *Crash {
	cr := &Crash{Kind: "exit"}
	lines := strings.Split(log, "\n")
	start := -1
	for i, l := range lines {
		if strings.HasPrefix(l, "fatal error:") || strings.HasPrefix(l, "panic:") || strings.HasPrefix(l, "runtime: out of memory") {
			if start < 0 {
				start = i
			}
			if strings.HasPrefix(l, "fatal error:") || strings.HasPrefix(l, "panic:") {
				cr.Fatal = l
				break
			}
		}
	}
	switch {
	case strings.Contains(cr.Fatal, "out of memory") || strings.Contains(log, "cannot allocate"):
		cr.Kind = "oom"
	case strings.HasPrefix(cr.Fatal, "panic:"):
		cr.Kind = "panic"
	case cr.Fatal != "":
		cr.Kind = "fatal"
	}
	if start >= 0 {
		for _, l := range lines[start:] {
			m := frameRe.FindStringSubmatch(strings.TrimSpace(l))
			if m == nil {
				continue
			}
			fn := m[1]
			if strings.HasPrefix(fn, "runtime.") || strings.HasPrefix(fn, "testing.") || strings.HasPrefix(fn, "panic") ||
				strings.HasPrefix(fn, "syscall.") || strings.HasPrefix(fn, "internal/") || strings.HasPrefix(fn, "reflect.") {
				continue
			}
			cr.Frame = fn
			break
		}
	}
	cr.full = log
	if len(cr.full) > 1<<20 {
		cr.full = cr.full[:1<<20]
	}
	if len(log) > 4000 {
		log = log[:4000]
	}
	cr.Log = log
	return cr
}

// Probe sends one payload and returns the child's answer, or the crash it caused.
func (c *Child) Probe(payload []byte) (string, *Crash, error) {
	// With the address space nearly used up by the input's allocations the runtime sometimes
	// fails to create a thread (and aborts) before it fails to allocate: that says nothing about
	// where the memory went, so the input is tried again in a fresh child.
	for attempt := 0; ; attempt++ {
		ans, crash, err := c.probeOnce(payload)
		if crash != nil && attempt < 3 && (strings.Contains(crash.full, "pthread_create failed") || strings.Contains(crash.full, "failed to create new OS thread")) {
			continue
		}
		return ans, crash, err
	}
}

func (c *Child) probeOnce(payload []byte) (string, *Crash, error) {
	if c.cmd == nil {
		if err := c.start(); err != nil {
			return "", nil, err
		}
	}
	if _, err := io.WriteString(c.in, hex.EncodeToString(payload)+"\n"); err != nil {
		return "", c.died("write"), nil
	}
	type res struct {
		s   string
		err error
	}
	ch := make(chan res, 1)
	go func() {
		s, err := c.out.ReadString('\n')
		ch <- res{s, err}
	}()
	// While waiting, watch the CPU time the child burns on this one input: a decoder that spins
	// is decided on CPU seconds (not on the wall clock, which only leads to "timeout" =
	// inconclusive on a loaded machine).
	cpu0 := procCPU(c.cmd.Process.Pid)
	deadline := time.After(c.Timeout)
	tick := time.NewTicker(200 * time.Millisecond)
	defer tick.Stop()
	for {
		select {
		case r := <-ch:
			if r.err != nil {
				return "", c.died("read"), nil
			}
			return strings.TrimSpace(r.s), nil, nil
		case <-tick.C:
			if cpu := procCPU(c.cmd.Process.Pid); cpu0 >= 0 && cpu-cpu0 >= c.cpuLimit() {
				c.cmd.Process.Signal(syscall.SIGQUIT)
				time.Sleep(300 * time.Millisecond)
				cr := c.died("cpu")
				cr.Kind = "no-termination"
				cr.Frame = runningFrame(cr.full)
				cr.Fatal = fmt.Sprintf("the call used %.1f s of CPU on one input without returning", cpu-cpu0)
				return "", cr, nil
			}
		case <-deadline:
			c.cmd.Process.Signal(syscall.SIGQUIT)
			time.Sleep(300 * time.Millisecond)
			cr := c.died("timeout")
			cr.Kind = "timeout"
			return "", cr, nil
		}
	}
}

// CPULimit is the CPU time one probe may use before it counts as not terminating (default 5 s).
func (c *Child) cpuLimit() float64 {
	if c.CPULimit > 0 {
		return c.CPULimit
	}
	return 5
}

// procCPU returns user+system CPU seconds of a process, -1 if unknown.
func procCPU(pid int) float64 {
	b, err := os.ReadFile(fmt.Sprintf("/proc/%d/stat", pid))
	if err != nil {
		return -1
	}
	s := string(b)
	i := strings.LastIndex(s, ")")
	if i < 0 {
		return -1
	}
	f := strings.Fields(s[i+1:])
	if len(f) < 13 {
		return -1
	}
	var ut, st float64
	fmt.Sscanf(f[11], "%f", &ut)
	fmt.Sscanf(f[12], "%f", &st)
	return (ut + st) / 100
}

// runningFrame extracts, from a SIGQUIT goroutine dump, the innermost non-runtime function of a
// goroutine that was running.
func runningFrame(log string) string {
	for _, g := range strings.Split(log, "\n\n") {
		lines := strings.Split(strings.TrimSpace(g), "\n")
		if len(lines) == 0 || !strings.HasPrefix(lines[0], "goroutine ") || !strings.Contains(lines[0], "[running") {
			continue
		}
		for _, l := range lines[1:] {
			m := frameRe.FindStringSubmatch(strings.TrimSpace(l))
			if m == nil {
				continue
			}
			fn := m[1]
			if strings.HasPrefix(fn, "runtime.") || strings.HasPrefix(fn, "testing.") || strings.HasPrefix(fn, "syscall.") ||
				strings.HasPrefix(fn, "internal/") || strings.HasPrefix(fn, "os.") || strings.Contains(fn, "internal/verifkit.") {
				continue
			}
			return fn
		}
	}
	return "?"
}

func (c *Child) died(how string) *Crash {
	c.in.Close()
	done := make(chan struct{})
	go func() { c.cmd.Wait(); close(done) }()
	select {
	case <-done:
	case <-time.After(5 * time.Second):
		c.cmd.Process.Kill()
		<-done
	}
	b, _ := os.ReadFile(c.errPath)
	os.Remove(c.errPath)
	c.cmd = nil
	cr := parseCrash(string(b))
	if strings.Contains(cr.Frame, "internal/verifkit.") || cr.Frame == "" && cr.Kind == "oom" {
		cr.Kind = "infrastructure" // the probe child itself failed, not the code under test
	}
	if cr.Fatal == "" {
		cr.Fatal = "child ended (" + how + ")"
	}
	return cr
}

// ServeChild is the child's main loop: limit the address space, then answer one line per input.
// handler returns a short single-line answer; a panic inside it is reported as an answer
// "PANIC <value> @ <frame>" (recoverable panics do not kill the child).
func ServeChild(limitBytes uint64, handler func(payload []byte) string) {
	// no core files; a SIGQUIT from the parent (input in flight does not terminate) switches to the
	// traceback mode that also shows the stacks of goroutines running on other threads
	syscall.Setrlimit(syscall.RLIMIT_CORE, &syscall.Rlimit{Cur: 0, Max: 0})
	sigc := make(chan os.Signal, 1)
	signal.Notify(sigc, syscall.SIGQUIT)
	go func() {
		<-sigc
		debug.SetTraceback("crash")
		signal.Reset(syscall.SIGQUIT)
		syscall.Kill(os.Getpid(), syscall.SIGQUIT)
	}()
	// a child that spins on an input must not outlive a parent killed by the driver's watchdog
	parent := os.Getppid()
	go func() {
		for {
			time.Sleep(time.Second)
			if os.Getppid() != parent {
				os.Exit(3)
			}
		}
	}()
	in := bufio.NewReaderSize(os.Stdin, 1<<22)
	out := bufio.NewWriter(os.Stdout)
	warm := make([]byte, 8<<20) // make the runtime map its first arenas before the limit applies
	warm[len(warm)-1] = 1
	runtime.GC()
	if limitBytes > 0 {
		syscall.Setrlimit(syscall.RLIMIT_AS, &syscall.Rlimit{Cur: limitBytes, Max: limitBytes})
	}
	for {
		line, err := in.ReadString('\n')
		if err != nil {
			return
		}
		payload, herr := hex.DecodeString(strings.TrimSpace(line))
		var ans string
		if herr != nil {
			ans = "BADHEX"
		} else {
			ans = safeCall(handler, payload)
		}
		ans = strings.ReplaceAll(ans, "\n", " ")
		fmt.Fprintln(out, ans)
		out.Flush()
	}
}

func safeCall(h func([]byte) string, p []byte) (ans string) {
	defer func() {
		if r := recover(); r != nil {
			ans = fmt.Sprintf("PANIC %v @ %s", r, PanicFrame())
		}
	}()
	return h(p)
}

// PanicFrame returns the first non-runtime function on the stack of a recovered panic.
func PanicFrame() string {
	if f := takeOverrideFrame(); f != "" {
		return f // the panic was caught on a guarded goroutine and re-raised here
	}
	pcs := make([]uintptr, 40)
	n := runtime.Callers(3, pcs)
	frames := runtime.CallersFrames(pcs[:n])
	seenPanic := false
	for {
		f, more := frames.Next()
		if strings.HasPrefix(f.Function, "runtime.gopanic") || strings.HasPrefix(f.Function, "runtime.panic") || strings.HasPrefix(f.Function, "runtime.goPanic") {
			seenPanic = true
		} else if seenPanic && !strings.HasPrefix(f.Function, "runtime.") {
			return f.Function
		}
		if !more {
			break
		}
	}
	return "?"
}

// ---- allocation attribution (heap profile at rate 1, used by probe children) -------------------------

type AllocProfiler struct {
	prev map[[32]uintptr]int64
}

// NewAllocProfiler switches the heap profile to rate 1; call it first thing in the child.
func NewAllocProfiler() *AllocProfiler {
	runtime.MemProfileRate = 1
	return &AllocProfiler{prev: map[[32]uintptr]int64{}}
}

// TopSince returns the first non-runtime function of the allocation site that allocated the most
// bytes since the previous call (or since start), among sites whose stack passes through a
// function whose name contains marker (the probe handler).
func (a *AllocProfiler) TopSince(marker string) string {
	for i := 0; i < 4; i++ { // the heap profile lags by up to two completed cycles
		runtime.GC()
	}
	n, _ := runtime.MemProfile(nil, true)
	recs := make([]runtime.MemProfileRecord, n+200)
	n, ok := runtime.MemProfile(recs, true)
	if !ok {
		return "?"
	}
	var best int64
	bestFrame := "?"
	for _, r := range recs[:n] {
		d := r.AllocBytes - a.prev[r.Stack0]
		a.prev[r.Stack0] = r.AllocBytes
		if d > best {
			frames := runtime.CallersFrames(r.Stack())
			name := ""
			inside := false
			for {
				f, more := frames.Next()
				if name == "" && f.Function != "" && !strings.HasPrefix(f.Function, "runtime.") {
					name = f.Function
				}
				if strings.Contains(f.Function, marker) {
					inside = true
				}
				if !more {
					break
				}
			}
			if inside && name != "" {
				best, bestFrame = d, name
			}
		}
	}
	return bestFrame
}
