//go:build verif

package spynode

import (
	"fmt"
	"testing"

	"github.com/tokenized/pkg/wire"
	"github.com/tokenized/spynode/internal/verifkit"
	"github.com/tokenized/spynode/pkg/client"
)

// C09 (node part): the header-range query against the list of headers.
func TestVerif_C09Node(t *testing.T) {
	rep := verifkit.NewReport("C09")
	defer rep.Write()
	tips := []int{0, 1, 2, 5, 999, 1000, 1001, 1003, 2000, 2002}
	heights := func(tip int) []int {
		hs := []int{-3, -2, -1, 0, 1, 2, tip - 2, tip - 1, tip, tip + 1, tip + 5, 998, 999, 1000, 1001}
		return hs
	}
	counts := []int{0, 1, 2, 3, 5, 1000, 1001, 2500}
	ci := 0
	for _, tip := range tips {
		ci++
		if !verifkit.Mine(ci) {
			continue
		}
		e, err := newDD(ddOpt{})
		if err != nil {
			rep.Finding(ci, "C09/node-load-failed", err.Error(), nil)
			continue
		}
		g, _ := e.node.blocks.Header(e.ctx, 0)
		model := []wire.BlockHeader{*g}
		for i := 1; i <= tip; i++ {
			h := wire.BlockHeader{Version: 1, PrevBlock: *model[i-1].BlockHash(), Timestamp: uint32(1600000000 + i), Nonce: uint32(i)}
			if err := e.node.blocks.Add(e.ctx, &h); err != nil {
				rep.Finding(ci, "C09/add-failed", err.Error(), nil)
			}
			model = append(model, h)
		}
		for _, h := range heights(tip) {
			for _, max := range counts {
				var got *client.Headers
				var gerr error
				var pan interface{}
				func() {
					defer func() { pan = recover() }()
					got, gerr = e.node.GetHeaders(e.ctx, h, max)
				}()
				desc := fmt.Sprintf("GetHeaders(%d,%d) at tip %d", h, max, tip)
				shape := "in-range"
				if h == -1 {
					shape = "minus-one"
				} else if h < 0 {
					shape = "negative"
				} else if h > tip {
					shape = "beyond-tip"
				} else if h+max-1 > tip {
					shape = "truncated-by-tip"
				}
				rep.Event("getheaders:"+shape, 1)
				rep.Case(fmt.Sprintf("%s/%d/%d/%d", shape, tip, h, max), true)
				if pan != nil {
					rep.Finding(ci, "C09/GetHeaders/panic/"+shape, fmt.Sprintf("%s panicked: %v", desc, pan), nil)
					continue
				}
				// expected range
				start, n := h, max
				if h == -1 {
					start = tip - max + 1
					if start < 0 {
						start = 0
					}
				}
				if start < 0 || start > tip {
					n = 0
				} else if start+n-1 > tip {
					n = tip - start + 1
				}
				if gerr != nil {
					if n == 0 {
						continue // error for an empty range is fine
					}
					rep.Finding(ci, "C09/GetHeaders/error/"+shape, fmt.Sprintf("%s: %v", desc, gerr), nil)
					continue
				}
				if got == nil {
					rep.Finding(ci, "C09/GetHeaders/nil-result/"+shape, desc+" returned nil, nil", nil)
					continue
				}
				if len(got.Headers) != n {
					rep.Finding(ci, "C09/GetHeaders/count/"+shape, fmt.Sprintf("%s returned %d headers, expected %d consecutive from %d", desc, len(got.Headers), n, start), nil)
					continue
				}
				bad := false
				for i, hd := range got.Headers {
					if *hd.BlockHash() != *model[start+i].BlockHash() {
						bad = true
					}
				}
				if bad || (n > 0 && int(got.StartHeight) != start) {
					rep.Finding(ci, "C09/GetHeaders/content/"+shape, fmt.Sprintf("%s returned StartHeight=%d and headers that are not heights %d..%d", desc, got.StartHeight, start, start+n-1), nil)
				}
			}
		}
		if rep.WantSample() {
			rep.Sample(map[string]interface{}{"engine": "node.GetHeaders grid", "tip": tip, "heights": heights(tip), "counts": counts})
		}
	}
}
