//go:build verif

package state

import (
	"fmt"
	"sort"
	"testing"

	"github.com/tokenized/pkg/bitcoin"
	"github.com/tokenized/pkg/wire"
	"github.com/tokenized/spynode/internal/verifkit"
)

// ---- C05 (component): MemPool against an outpoint-index model --------------------------------------

type mpTx struct {
	name string
	tx   *wire.MsgTx
	id   bitcoin.Hash32
	ins  []int // outpoint indexes
}

type mpUniverse struct {
	ops []wire.OutPoint
	txs []*mpTx
	byID map[bitcoin.Hash32]*mpTx
}

func newMPUniverse(nOut int, specs [][]int) *mpUniverse {
	u := &mpUniverse{byID: map[bitcoin.Hash32]*mpTx{}}
	for i := 0; i < nOut; i++ {
		var h bitcoin.Hash32
		h[0], h[1] = byte(i+1), 0x77
		u.ops = append(u.ops, wire.OutPoint{Hash: h, Index: uint32(i % 2)})
	}
	for k, ins := range specs {
		tx := wire.NewMsgTx(1)
		name := "tx{"
		for _, i := range ins {
			op := u.ops[i]
			tx.AddTxIn(wire.NewTxIn(&op, []byte{1, byte(k)}))
			name += string(rune('a' + i))
		}
		tx.AddTxOut(wire.NewTxOut(uint64(1000+k), []byte{0x51}))
		tx.LockTime = uint32(k + 1)
		m := &mpTx{name: fmt.Sprintf("%s}#%d", name, k), tx: tx, id: *tx.TxHash(), ins: ins}
		u.txs = append(u.txs, m)
		u.byID[m.id] = m
	}
	return u
}

type mpOp struct {
	Op      string `json:"op"` // addtx remove conflicting addreq
	Tx      int    `json:"tx"`
	Trusted bool   `json:"trusted,omitempty"`
}

type mpModel struct {
	index   map[int]map[int]bool // outpoint -> set of tx indexes holding it
	body    map[int]bool
	known   map[int]bool
	trusted map[int]bool
}

func newMPModel() *mpModel {
	return &mpModel{index: map[int]map[int]bool{}, body: map[int]bool{}, known: map[int]bool{}, trusted: map[int]bool{}}
}

func (m *mpModel) clone() *mpModel {
	c := newMPModel()
	for k, v := range m.index {
		c.index[k] = map[int]bool{}
		for t := range v {
			c.index[k][t] = true
		}
	}
	for k := range m.body {
		c.body[k] = true
	}
	for k := range m.known {
		c.known[k] = true
	}
	for k := range m.trusted {
		c.trusted[k] = true
	}
	return c
}

func (m *mpModel) remove(u *mpUniverse, t int) {
	if m.body[t] {
		for _, o := range u.txs[t].ins {
			delete(m.index[o], t)
			if len(m.index[o]) == 0 {
				delete(m.index, o)
			}
		}
	}
	delete(m.body, t)
	delete(m.known, t)
	delete(m.trusted, t)
}

func setString(u *mpUniverse, s map[int]bool) string {
	var names []string
	for t := range s {
		names = append(names, u.txs[t].name)
	}
	sort.Strings(names)
	return fmt.Sprint(names)
}

func (u *mpUniverse) opString(o mpOp) string {
	return fmt.Sprintf("%s(%s,trusted=%v)", o.Op, u.txs[o.Tx].name, o.Trusted)
}

func (u *mpUniverse) opsString(ops []mpOp) string {
	s := ""
	for _, o := range ops {
		s += u.opString(o) + "; "
	}
	return s
}

type mpViol struct{ rule, detail string }

func mpApply(u *mpUniverse, mp *MemPool, m *mpModel, op mpOp) *mpViol {
	t := op.Tx
	tx := u.txs[t]
	switch op.Op {
	case "addtx":
		conflicts, _, added := mp.AddTransaction(c13ctx, tx.tx, op.Trusted)
		wantAdded := !m.body[t]
		if added != wantAdded {
			return &mpViol{"added-flag", fmt.Sprintf("AddTransaction(%s) added=%v, model says %v", tx.name, added, wantAdded)}
		}
		if wantAdded {
			want := map[int]bool{}
			for _, o := range tx.ins {
				for c := range m.index[o] {
					if c != t {
						want[c] = true
					}
				}
			}
			got := map[int]bool{}
			for _, c := range conflicts {
				ct, ok := u.byID[c]
				if !ok {
					return &mpViol{"conflicts-unknown-txid", "conflict list holds a txid that was never added"}
				}
				for i, x := range u.txs {
					if x == ct {
						got[i] = true
					}
				}
			}
			if setString(u, got) != setString(u, want) {
				kind := "conflicts-missing"
				if len(got) > len(want) {
					kind = "conflicts-extra"
				}
				return &mpViol{kind, fmt.Sprintf("AddTransaction(%s) returned conflicts %s, the other spenders of its outpoints are %s", tx.name, setString(u, got), setString(u, want))}
			}
			for _, o := range tx.ins {
				if m.index[o] == nil {
					m.index[o] = map[int]bool{}
				}
				m.index[o][t] = true
			}
			m.body[t] = true
		}
		m.known[t] = true
		if op.Trusted {
			m.trusted[t] = true
		}
	case "remove":
		had := mp.RemoveTransaction(tx.id)
		if had != m.body[t] {
			return &mpViol{"remove-result", fmt.Sprintf("RemoveTransaction(%s)=%v, model says body held=%v", tx.name, had, m.body[t])}
		}
		m.remove(u, t)
	case "conflicting":
		// only asked for transactions that are not pooled (as the block processor does)
		if m.body[t] {
			return nil
		}
		res := mp.Conflicting(tx.tx)
		want := map[int]bool{}
		for _, o := range tx.ins {
			for c := range m.index[o] {
				want[c] = true
			}
		}
		got := map[int]bool{}
		for _, c := range res {
			for i, x := range u.txs {
				if x.id == c {
					got[i] = true
				}
			}
		}
		if setString(u, got) != setString(u, want) {
			kind := "conflicting-missing"
			if len(got) > len(want) {
				kind = "conflicting-extra"
			}
			return &mpViol{kind, fmt.Sprintf("Conflicting(%s) returned %s, pooled spenders of its outpoints are %s", tx.name, setString(u, got), setString(u, want))}
		}
		for c := range want {
			m.remove(u, c)
		}
	case "addreq":
		have, _ := mp.AddRequest(c13ctx, tx.id, op.Trusted)
		if have != m.body[t] {
			return &mpViol{"addrequest-have", fmt.Sprintf("AddRequest(%s) have=%v, body held=%v", tx.name, have, m.body[t])}
		}
		m.known[t] = true
		if op.Trusted {
			m.trusted[t] = true
		}
	}
	return mpProbe(u, mp, m, op)
}

func mpProbe(u *mpUniverse, mp *MemPool, m *mpModel, op mpOp) *mpViol {
	snap := mp.VerifSnapshot()
	// index must list exactly the pooled spenders of every outpoint
	for o, opnt := range u.ops {
		key := *opnt.OutpointHash()
		got := map[int]bool{}
		dups := false
		for _, id := range snap.Inputs[key] {
			for i, x := range u.txs {
				if x.id == id {
					if got[i] {
						dups = true
					}
					got[i] = true
				}
			}
		}
		want := m.index[o]
		if want == nil {
			want = map[int]bool{}
		}
		if setString(u, got) != setString(u, want) || dups {
			kind := "index-missing-spender"
			if len(got) > len(want) || dups {
				kind = "index-stale-spender"
			}
			return &mpViol{kind, fmt.Sprintf("after %s outpoint %c is indexed with %s, pooled spenders are %s", u.opString(op), 'a'+o, setString(u, got), setString(u, want))}
		}
	}
	if len(snap.Inputs) != len(m.index) {
		return &mpViol{"index-stale-outpoint", fmt.Sprintf("after %s the index holds %d outpoints, model %d", u.opString(op), len(snap.Inputs), len(m.index))}
	}
	for i, x := range u.txs {
		if mp.TransactionExists(&x.id) != m.body[i] {
			return &mpViol{"exists", fmt.Sprintf("after %s TransactionExists(%s)=%v", u.opString(op), x.name, !m.body[i])}
		}
		if mp.IsTrusted(c13ctx, x.id) != (m.known[i] && m.trusted[i]) {
			return &mpViol{"trusted-mark", fmt.Sprintf("after %s IsTrusted(%s)=%v, model %v", u.opString(op), x.name, !(m.known[i] && m.trusted[i]), m.known[i] && m.trusted[i])}
		}
	}
	return nil
}

func TestVerif_C05(t *testing.T) {
	rep := verifkit.NewReport("C05")
	rep.Rule = "component: bounded-exhaustive sequences (depth D) over 30 mempool operations on 3 outpoints / 6 transactions and random length-40 sequences on 4 outpoints / 28 transactions (every subset of 1..3 outpoints, two variants); after every op the returned conflict set, added flag, trusted mark and the outpoint index snapshot are compared with map[outpoint]set(txid). Non-trivial = at least one conflict arose or an eviction happened; distinct by the sequence of (op kind, conflict count)"
	rep.Assumptions = []string{"overlay accessor VerifSnapshot reads the mempool index under its mutex", "Conflicting is only queried for transactions that are not pooled, as the block processor does"}
	defer rep.Write()

	// bounded exhaustive
	u := newMPUniverse(3, [][]int{{0}, {0}, {0, 1}, {1}, {1, 2}, {2}})
	var alphabet []mpOp
	for i := range u.txs {
		alphabet = append(alphabet, mpOp{Op: "addtx", Tx: i}, mpOp{Op: "addtx", Tx: i, Trusted: true},
			mpOp{Op: "remove", Tx: i}, mpOp{Op: "conflicting", Tx: i}, mpOp{Op: "addreq", Tx: i, Trusted: true})
	}
	depth := verifkit.N(4, 5)
	var nodes int64
	var dfs func(mp *MemPool, m *mpModel, prefix []mpOp)
	dfs = func(mp *MemPool, m *mpModel, prefix []mpOp) {
		if len(prefix) == depth {
			return
		}
		for _, op := range alphabet {
			mp2, m2 := mp.VerifClone(), m.clone()
			seq := append(append([]mpOp(nil), prefix...), op)
			nodes++
			if v := mpApply(u, mp2, m2, op); v != nil {
				rep.Finding(-1, "C05/mempool/"+v.rule+"/"+op.Op, v.detail+" | ops: "+u.opsString(seq), map[string]interface{}{"engine": "exhaustive", "ops": u.opsString(seq)})
				continue
			}
			dfs(mp2, m2, seq)
		}
	}
	for i, op := range alphabet {
		if !verifkit.Mine(i) || verifkit.OnlyCase() >= 0 {
			continue
		}
		mp, m := NewMemPool(), newMPModel()
		nodes++
		if v := mpApply(u, mp, m, op); v != nil {
			rep.Finding(-1, "C05/mempool/"+v.rule+"/"+op.Op, v.detail, nil)
			continue
		}
		dfs(mp, m, []mpOp{op})
	}
	rep.Event("exhaustive_sequences_probed", nodes)
	rep.Note("bounded-exhaustive part: %d ops, depth %d", len(alphabet), depth)

	// random
	var specs [][]int
	for mask := 1; mask < 16; mask++ {
		var ins []int
		for b := 0; b < 4; b++ {
			if mask&(1<<b) != 0 {
				ins = append(ins, b)
			}
		}
		if len(ins) <= 3 {
			specs = append(specs, ins, ins)
		}
	}
	ub := newMPUniverse(4, specs)
	n := verifkit.N(3000, 200000)
	for ci := 0; ci < n; ci++ {
		if !verifkit.Mine(ci) {
			continue
		}
		ci := ci
		verifkit.RunCase(rep, ci, func() {
			r := verifkit.Rand("C05/mempool", ci)
			mp, m := NewMemPool(), newMPModel()
			var ops []mpOp
			fp := ""
			nontrivial := false
			for s := 0; s < 40; s++ {
				op := mpOp{Tx: r.Intn(len(ub.txs)), Trusted: r.Intn(2) == 0}
				switch k := r.Intn(10); {
				case k < 5:
					op.Op = "addtx"
				case k < 7:
					op.Op = "remove"
				case k < 8:
					op.Op = "conflicting"
				default:
					op.Op = "addreq"
				}
				ops = append(ops, op)
				nb := len(m.body)
				v := mpApply(ub, mp, m, op)
				rep.Event("random_op:"+op.Op, 1)
				if v != nil {
					rep.Finding(ci, "C05/mempool/"+v.rule+"/"+op.Op, v.detail+" | ops: "+ub.opsString(ops), map[string]interface{}{"engine": "random", "ops": ub.opsString(ops)})
					break
				}
				multi := 0
				for _, s := range m.index {
					if len(s) > 1 {
						multi++
					}
				}
				if multi > 0 || len(m.body) < nb-0 && op.Op == "conflicting" {
					nontrivial = true
				}
				fp += fmt.Sprintf("%s%d,", op.Op[:2], multi)
			}
			rep.Case(fp, nontrivial)
			if rep.WantSample() {
				rep.Sample(map[string]interface{}{"engine": "random", "case": ci, "ops": ub.opsString(ops)})
			}
		})
	}
}
