# Per-property configuration of the monitors (read by vcheck and by tools/gen_manifest.py).
# runs: list of monitor runs merged into one verdict
#   pkg    package (relative to /repo) whose in-package monitor binary is built
#   test   Go test function that is the monitor
#   race   build and run under the race detector
#   shards {tier: n}     processes the case list is split over
# race_attrib  regexes of mechanism functions: a race report is charged to the property only if
#              both accesses are inside these
META = {
    "pending_reason": "not claimed yet: the monitor for this property is still being built (see DESIGN.md Appendix C); the technique applies",
    "hook_commits": ["8c2d351", "da19a0b", "454f561", "824469c"],
    "notes": "All checks are runtime monitors over executions of the real code built from /repo's working tree (go test -overlay, tag verif). Verdicts: exit 0 held on what was observed, exit 1 VIOLATION, exit 2 broken/inconclusive run. Known findings: known_findings.json.",
    "engines": [
        {"name": "vcheck", "path": "/verif/vcheck", "serves_properties": [], "kind_free_text": "python driver: overlay build of /repo + harness, sharded runs, merge of observations, known-findings matching, evidence"},
        {"name": "verifkit", "path": "/verif/harness/verifkit", "serves_properties": [], "kind_free_text": "Go monitoring kit: report, recording/faulting storage, block/tx generators, scripted peer"},
    ],
}

CHECKS = {
    "C13": {
        "level": "exploration",
        "technique": "runtime monitoring: lock-step shadow-model monitor over bounded-exhaustive and random operation sequences + porcupine linearizability check of recorded concurrent histories under the Go race detector",
        "level_text": "Every operation sequence up to depth 5 (thorough 6) over a 24-operation alphabet and thousands of random length-80 sequences are executed on the real state.State request queue; after every step the monitor compares the queue with a shadow of the observable history (outstanding set, order, body presence, byte counter, window). Concurrent histories of the four real callers are recorded at the API boundary and checked for linearizability; the race detector watches the same runs. Exploration is the right level: the state space (hash trees x sizes x sequences) is unbounded, the sampled part is dense around the window/byte limits and fork clears. A wire-level monitor in the DS engine judges every getdata(block) as it is emitted: no repeat while the earlier request is outstanding, not for a held block, parent first; a fork among requested or queued blocks must be followed.",
        "level_note": "Trusted: fake wire.Block objects (size as claimed), overlay accessor reading unexported queue fields under State.lock, porcupine. The byte limit is only probed clearly below/above 100 MB; request-now vs queued is not compared.",
        "runs": [
            {"pkg": "internal/state", "test": "TestVerif_C13"},
            {"pkg": "internal/state", "test": "TestVerif_C13Conc", "race": True},
            {"pkg": "internal/spynode", "test": "TestVerif_C13DS"},
        ],
        "race_attrib": [r"state\.\(\*State\)\."],
    },
    "C09": {
        "level": "exploration",
        "technique": "runtime monitoring: reference-model monitor (Go slice) in lock-step with the real block repository over generated operation lists, every query probed after every operation",
        "level_text": "Generated operation lists over {add k, revert t, save, save+reload} with heights concentrated at the 1000-header file boundaries run against the real BlockRepository on a recording in-memory store (both delete-missing behaviours); after every operation ~80 query answers are compared with a Go slice, panics are caught, and a failing revert must leave every answer unchanged. The node's header-range query is checked the same way. Exploration: the sequence space is unbounded; sampling is dense where the code has special cases (file roll-over, unsaved newest file, cross-file revert). Ops include Load on the repository in use (as Node.load does for AddPeer/Scan/Run); a concurrent monitor (race detector) has readers ask for the tip while another goroutine saves and reverts across a file boundary.",
        "level_note": "Trusted: verifkit.Store as the storage back end, the list model. Hash(-1)/Time(-1) may answer error, empty or the tip (only Header documents -1).",
        "runs": [
            {"pkg": "internal/storage", "test": "TestVerif_C09"},
            {"pkg": "internal/spynode", "test": "TestVerif_C09Node", "shards": {"quick": 4, "thorough": 4}},
            {"pkg": "internal/storage", "test": "TestVerif_C09Conc", "race": True},
        ],
        "race_attrib": [r"storage\.\(\*BlockRepository\)\."],
    },
    "C05": {
        "level": "exploration",
        "technique": "runtime monitoring: reference-model monitor of the mempool outpoint index in lock-step (bounded-exhaustive + random), plus callback-history checker over direct-drive node histories",
        "level_text": 'Component: the real MemPool runs in lock-step with map[outpoint]set(txid) over every operation sequence to depth 4 (thorough 5) on 3 outpoints and random length-40 sequences on 4 outpoints / 28 transactions; returned conflict sets, added flag, trusted mark and the index snapshot are compared after every operation. Node level: generated double-spend histories (k-way conflicts, partial overlaps, any arrival order and source, interleaved with confirming blocks) are driven into the real node and the recorded callbacks are judged: each relevant member of a pooled conflict pair is reported unsafe, never safe afterwards, and every unsafe report is justified by a seen transaction sharing an outpoint. Exploration.',
        "level_note": 'Trusted: overlay snapshot accessor of the mempool index (read under its mutex); Conflicting is only queried for transactions that are not pooled, as the block processor does; node-level engine is sequential.',
        "runs": [
            {"pkg": "internal/state", "test": "TestVerif_C05"},
            {"pkg": "internal/spynode", "test": "TestVerif_C05Node"},
            {"pkg": "internal/spynode", "test": "TestVerif_C05Delay"},
        ],
    },
    "C14": {
        "level": "exploration",
        "technique": "runtime monitoring: online trace checker over emitted getdata(tx) events under a virtual clock (aged request times) + porcupine linearizability check per txid of concurrent AddRequest histories under the race detector",
        "level_text": "Thousands of generated interleavings of inventory announcements from one trusted and three untrusted connections, body arrivals, silent peers, confirmations and periodic tracker checks are run through the real inv handlers, MemPool.AddRequest and TxTracker.Check; every getdata(tx) the code emits is judged against a virtual clock (no second request inside the window, none after the body, a waiting announcer asks at its next check once the window passed, nothing after confirmation). Four goroutines announcing overlapping sets in one epoch give concurrent histories checked with porcupine and the race detector. Exploration: interleavings are unbounded; the generator is dense around the window boundary. Further: arrivals on a second goroutine while a block is processed, and a family where a transaction with a stored state (its block was orphaned) is announced again after its double spend was seen. A node-level run (real UntrustedNode trackers registered with the node) checks that announcements of transactions confirmed in a block are forgotten, also when the block is processed while catching up, and that an unconfirmed one is re-requested from exactly one waiting announcer.",
        "level_note": "Trusted: ageing accessor (MemPool.VerifAge) as virtual time, 0.1 s margin around the 3 s window, the harness re-issues the two calls processUnconfirmedTx makes on body arrival and the two calls block processing makes on confirmation.",
        "runs": [
            {"pkg": "internal/handlers", "test": "TestVerif_C14"},
            {"pkg": "internal/handlers", "test": "TestVerif_C14Conc", "race": True},
            {"pkg": "internal/spynode", "test": "TestVerif_C14Node"},
        ],
        "race_attrib": [r"state\.\(\*MemPool\)\.", r"state\.\(\*TxTracker\)\."],
    },
    "C08": {
        "level": "exploration",
        "technique": "runtime monitoring: differential monitor of Node.IsRelevant against an independent script walker and a multiset subscription model over grammar-generated transactions",
        "level_text": "Each case drives a fresh node through a random subscribe/unsubscribe/contract sequence and judges ten grammar-generated transactions after every step: the harness' own 40-line script walker lists the complete pushes, a multiset model holds the subscriptions, and Tokenized action outputs of every action code (plus truncated and mutated envelopes) are planted. Disagreement in either direction or a panic is a violation. Exploration: the input space is unbounded; the grammar plants matching, hashing-to and one-bit-off pushes in every position and truncates scripts at every kind of push. Two more monitors: the pkg/client address helpers (every hash of a multi-PKH address is subscribed), and two goroutines changing subscriptions at once (commuting calls, known result, under the race detector).",
        "level_note": "Trusted: bitcoin.Hash160, protocol.Serialize for building action outputs. Not judged (ambiguous in the statement): 20-byte pushes whose hash160 is subscribed, implied data of OP_1..16, mutated envelopes while contract subscription is on.",
        "runs": [
            {"pkg": "internal/spynode", "test": "TestVerif_C08"},
            {"pkg": "internal/spynode", "test": "TestVerif_C08Conc", "race": True},
            {"pkg": "internal/spynode", "test": "TestVerif_C08Address"},
        ],
        "race_attrib": [r"spynode\.\(\*Node\)\.(Subscribe|Unsubscribe|IsRelevant)"],
    },
    "C15": {
        "level": "exploration",
        "technique": "runtime monitoring: round-trip / exact-consumption / all-prefixes monitor over generated values of every wire message type and of the stored transaction record",
        "level_text": "For each of the 37 message types hundreds (thorough: tens of thousands) of generated values with boundary integers at every varint width, empty and long lists and optional fields are encoded, decoded from a reader with trailing sentinel bytes, re-encoded and compared structurally; every strict prefix of every encoding must fail with an error; random concatenations must decode to the same sequence and stop at EOF; the type/name/payload table is checked for bijection; the stored tx record is round-tripped through the storage functions. Exploration: the value space is unbounded, generators are boundary-heavy.",
        "level_note": "Trusted: reflect-based structural equality (nil == empty slice), dependency encoders of wire.MsgTx / merkle_proof / bsor. Three payloads holding dependency types are compared by re-encoding only.",
        "runs": [
            {"pkg": "pkg/client", "test": "TestVerif_C15"},
            {"pkg": "internal/storage", "test": "TestVerif_C15Store"},
        ],
    },
    "C20": {
        "level": "exploration",
        "technique": "runtime monitoring: child-process crash/allocation monitor (address-space limit, per-input heap accounting) over mutated valid encodings and random bytes",
        "level_text": "Every decoder of the client protocol and every stored-record loader is fed valid encodings with maximal varints / fixed-width maxima spliced in at every byte offset, random bytes behind every type code and noise; decoding runs in a probe child under a 3 GiB address-space limit which reports the outcome and the bytes allocated, and the parent attributes a death to the input in flight. Findings: panic, process-fatal error, allocation above 1 MiB + 64*len(input). Exploration: the byte-string space is unbounded; the mutation set targets every count/length field of every format. A decode that burns 5 CPU-seconds on one input is reported as not terminating; a decoded value must encode again without a panic.",
        "level_note": "Trusted: runtime.ReadMemStats TotalAlloc as the allocation measure, the crash parser that extracts the dying function from the child's stderr. Decoders of dependencies (wire.MsgTx, bitcoin.Signature, bsor) are reached through spynode's decoders and findings inside them are attributed to the dependency frame.",
        "runs": [
            {"pkg": "pkg/client", "test": "TestVerif_C20"},
            {"pkg": "internal/storage", "test": "TestVerif_C20Store"},
        ],
    },
    "C16": {
        "level": "exploration",
        "technique": "runtime monitoring: client-boundary history checker of concurrent RemoteClient calls against a scripted loopback server with self-identifying responses, under the Go race detector in the thorough tier",
        "level_text": "Each round starts the real RemoteClient against a scripted TCP server and issues 2-24 concurrent calls with distinct keys; the server answers by script (permuted by delays, duplicated, rejected, never, after the time-out) and interleaves unsolicited responses. Every response identifies its key, so the oracle checks per call that the returned value / RejectError / Timeout is the one scripted for that call, and that a time-out is not early. Outputs-lookup rounds cover repeated txids and out-of-range indexes. Exploration: schedules and response orders are unbounded. Pairs of calls of one kind are staggered so that the first times out while the second is pending; a second wave retries keys that were rejected or never answered; height 0 is a key. In two rounds of five a hook slows the goroutine that owns the pending-request list (1 ms per iteration), so registrations and responses wait in its channels together as on a loaded machine; in one round of ten it is stalled once for longer than the request time-out while every call is unanswered, so registrations and deregistrations wait together and the second wave asks for the same keys. Slow-handshake rounds (TestVerif_C16Retry): the server holds its accept back beyond the message time-out, calls issued in that window fail on their send, the same keys are asked for again after the handshake while the server ignores the late copies of the failed calls; every retry must return its answer.",
        "level_note": "Trusted: the scripted server (uses the repository's own message codecs and key derivation). An answered call that times out is only judged when the answer was on the wire >120 ms (220 ms in the slowed rounds) before the deadline and the round reproduces when re-run alone.",
        "runs": [
            {"pkg": "pkg/client", "test": "TestVerif_C16", "shards": {"quick": 8, "thorough": 16}},
            {"pkg": "pkg/client", "test": "TestVerif_C16Retry", "shards": {"quick": 6, "thorough": 16}},
        ],
    },
    "C17": {
        "level": "exploration",
        "technique": "runtime monitoring: offline checker over the recorded handler callbacks (consecutive message ids, same order on every handler, NextMessageID at barriers) for generated perturbed server streams with connection drops",
        "level_text": "The real RemoteClient runs against a scripted server that, like the real service, resends from the id declared in Ready and perturbs the stream with duplicates, earlier ids, skipped ids, interleaved Headers/InSync and drops at generated points; handlers record every callback. The checker demands delivered ids = ready, ready+1, ... without gap or repeat on every handler, NextMessageID() = last delivered + 1 at the barrier (marker message through the same FIFO), and that nothing is missed once the server has resent everything in order. A slow-handler family fills the handler channel. Exploration: streams and drop placements are unbounded. Families also cover the order across notification kinds (unique Headers/InSync between transactions) and an application that declares ready from an id below the client's own; a hook holds Ready after its write so that the first notifications are handled inside that window.",
        "level_note": "Trusted: the scripted server's resume-from-Ready behaviour as the model of the real service; the barrier relies on the client's handler channel being FIFO (which is itself part of the property and checked through the order of ids).",
        "runs": [
            {"pkg": "pkg/client", "test": "TestVerif_C17", "shards": {"quick": 8, "thorough": 16}},
        ],
    },
    "C18": {
        "level": "exploration",
        "technique": "runtime monitoring: server-side arrival-log checker (per-connection message order vs handshake point) and handler-callback checker under forged accepts, generated connection plans and randomly timed application calls",
        "level_text": "Forgery rounds send one of six forged AcceptRegister messages (or the correct one as control) followed by a data burst and check IsAccepted, handler callbacks and Run's result; gating rounds run 1-4 scripted connections (accept late, close before accept, never accept, drop after the handshake) while application goroutines issue calls at random moments, and the scripted server's per-connection arrival log is checked: only handshake types before the handshake point, register validly signed with a fresh hash per connection, and no call reported as sent while no connection was past its handshake point. Exploration: forgeries, timings and drop points are unbounded; teardown windows are widened by the scripted delays. Calls waiting during a forged accept must not be written; a connection following one that was accepted and dropped at once must not count as accepted; the send loop is driven directly on a recording connection cut at generated bytes (reported sent implies written).",
        "level_note": "Trusted: the scripted server (key derivation with the repository's own bitcoin package), server-side timestamps from one monotonic clock. A call that returns success is only judged against a generous window ending when the next connection's register arrives.",
        "runs": [
            {"pkg": "pkg/client", "test": "TestVerif_C18", "shards": {"quick": 8, "thorough": 16}},
            {"pkg": "pkg/client", "test": "TestVerif_C18SendLoop"},
        ],
    },
    "C01": {
        "level": "exploration",
        "technique": "runtime monitoring: deterministic-schedule simulation of the real node code against a scripted peer with an online in-sync monitor and a convergence oracle under virtual (aged) time; cross-checked by real Node.Run over loopback TCP",
        "level_text": "Hundreds (thorough: tens of thousands) of generated scenarios run the real header/block handlers, request state, repositories, ProcessBlock and check() in one goroutine against a scripted well-behaved peer: initial chains of 3-52 or 1000-4000 blocks (crossing the 2000-headers message and 1000-header file limits), start block early/middle/not yet mined, permuted and duplicated block replies, varying block-processor fairness, and steps over extend / reorg (depth <= 15, also among pending blocks and during sync) / clean restart / connection drop. At every settle point the node's full height->hash map must equal the peer's best chain after at most three aged time-out rounds (else a stall with the wire trace as witness); every HandleInSync is judged online against the blocks the node has been told about. Exploration: histories and schedules are unbounded; the schedule is chosen by the PRNG so each finding replays. A cross-check runs the same kind of history against the real Node.Run over loopback TCP (all goroutines; thorough tier also under the race detector). Generated steps include forks at a block the node has requested or queued (also the one in processing) and a block mined between the end of the headers and the in-sync point. A quarter of the long scenarios end just above a header-file boundary, reorganise across it and return to the abandoned branch.",
        "level_note": "Trusted: the scripted peer as the model of a Bitcoin node (getheaders answered from the first known locator hash with up to 2000 headers, header announcements after sendheaders); virtual time by ageing stored request times through an overlay accessor; the harness re-issues the loop bodies of monitorIncoming/processBlocks/Run's reconnect (the L1 engine over real TCP cross-checks this).",
        "runs": [
            {"pkg": "internal/spynode", "test": "TestVerif_C01"},
            {"pkg": "internal/spynode", "test": "TestVerif_C01L1"},
            {"pkg": "internal/spynode", "test": "TestVerif_C01L1", "race": True, "tiers": ["thorough"]},
        ],
        "race_attrib": [r"^github\.com/tokenized/spynode/internal/(handlers|state|storage|spynode)\."],
    },
    "C02": {
        "level": "exploration",
        "technique": "runtime monitoring: invariant monitor (parent links, inverse height/hash maps, callback shadow chain) probed after every step of bounded-exhaustive and random hostile message sequences driven directly into the real handlers and block processor",
        "level_text": "Every sequence up to depth 3 (thorough 4) and thousands of random length-30 sequences over 26 hostile inputs from the trusted peer (header lists of every shape, every block of a two-branch tree requested or not, a corrupted body, unknown headers, block-processor steps, three start blocks) are fed to the real message dispatcher; after every step the monitor walks the stored chain (parent links, height<->hash inverse, tip) and the HandleHeaders callbacks of both handlers (contiguous heights, parent = block announced one below). The same probe runs after every scheduling step of the well-behaved-peer scenarios. Exploration: the message sequence space is unbounded.",
        "level_note": "Trusted: the probe reads through the repository's public query methods at quiescent points of a single-goroutine drive; the harness re-issues the block-processor loop body as one step.",
        "runs": [
            {"pkg": "internal/spynode", "test": "TestVerif_C02"},
            {"pkg": "internal/spynode", "test": "TestVerif_C02DS"},
        ],
    },
    "C03": {
        "level": "exploration",
        "technique": "runtime monitoring: offline exactly-once / completeness checker over recorded HandleTx callbacks against generator ground truth, for generated delivery histories driven directly into the real transaction and block processing code",
        "level_text": "Thousands of generated delivery histories (inv+tx or bare tx from the trusted peer and two untrusted peers, local submission, several sources for one tx, processing delayed in the channel, confirmation with seen and unseen transactions, re-announcement after confirmation, clean restart; relevant through output push / input push / hashed push or irrelevant; independent or chained) are driven into the real unconfirmed-tx and block processing code; the recorded HandleTx callbacks of both handlers are judged against the generator's ground truth: nothing irrelevant, spent outputs equal the UTXO universe per input, at most 1+orphanings deliveries as new, at least one when seen in sync or in a processed block. Exploration: history space unbounded. Histories include reorganisations (blocks orphaned, part of their transactions mined again) and transaction bodies arriving on a second goroutine while a block is processed; an L1 run repeats the rules with the real node over TCP (thorough: under the race detector).",
        "level_note": 'Trusted: generator ground truth (relevance by construction, UTXO universe), fake OutputFetcher; the harness re-issues the tx-processor and block-processor loop bodies sequentially (no goroutine races in this engine).',
        "runs": [
            {"pkg": "internal/spynode", "test": "TestVerif_C03"},
            {"pkg": "internal/spynode", "test": "TestVerif_C03L1"},
            {"pkg": "internal/spynode", "test": "TestVerif_C03L1", "race": True, "tiers": ["thorough"]},
        ],
        "race_attrib": [r"^github\.com/tokenized/spynode/internal/(handlers|state|storage|spynode)\."],
    },
    "C04": {
        "level": "exploration",
        "technique": "runtime monitoring: independent merkle-path verifier run over every confirmation notification of generated blocks, plus a no-effect monitor (height, callbacks) for corrupted block bodies, driven directly into the real block handler and ProcessBlock",
        "level_text": "Generated blocks of 1..40 and 63..66 transactions (every odd row count at every tree level) with generated sets and positions of relevant transactions, new or previously delivered, as MsgBlock and as the streaming MsgParseBlock, are processed by the real node; every confirmation notification is checked with the harness' own verifier against the merkle root of the header the node holds (true index, depth 0, the right notification kind, exactly one). For five kinds of body corruption under an unchanged header the monitor demands no height change and no callback. Exploration: block shapes are unbounded; sizes cover all duplication patterns up to 66 leaves. One block in four has the body of one of its transactions arrive while the block is processed, one in five is orphaned at once with part of its transactions mined again and the rest announced again; proof shape (duplicated-node markers) is judged and, online, every proof must be for a block the node holds at that moment.",
        "level_note": "Trusted: the harness' SHA-256 based merkle code (checked against the generator's block builder, which uses the same root function but an independent path walk), the DD step that re-issues the block-processor loop body.",
        "runs": [
            {"pkg": "internal/spynode", "test": "TestVerif_C04"},
        ],
    },
    "C06": {
        "level": "exploration",
        "technique": "runtime monitoring: offline checker over recorded handler callbacks against generator ground truth (which unconfirmed transaction loses an outpoint to a confirmed one) for generated double-spend histories driven into the real tx and block processing code",
        "level_text": "Generated histories over 4 outpoints with 3-8 transactions, arriving from generated sources and interleaved with blocks that confirm non-conflicting subsets (winner seen or unseen, relevant or not, several conflicts per block), run through the real tx and block processing; for every delivered unconfirmed loser the callbacks must contain a cancelled+unsafe update after the confirming block's HandleHeaders, none for transactions without a confirmed conflict, the loser must be gone from the mempool, and the block's own transactions must pass the C04 proof check. Exploration. The loser must also be gone from the outpoint index of every outpoint it spent; arrivals while an unrelated block is processed are part of the histories; a block processor that never returns is reported through the hang guard.",
        "level_note": 'Trusted: generator ground truth of who loses which outpoint; sequential DD engine (block processing and tx processing do not race here).',
        "runs": [
            {"pkg": "internal/spynode", "test": "TestVerif_C06"},
        ],
    },
    "C11": {
        "level": "exploration",
        "technique": "runtime monitoring: state-equality monitor across restart (unconfirmed set before vs after through an accessor) plus offline callback checker for post-restart behaviour, over generated histories with restarts at generated quiescent points",
        "level_text": "Generated delivery / conflict / confirmation histories with clean restarts inserted at quiescent points run through the real node; at each restart the unconfirmed set (txids, unsafe/safe/trusted flags, first-seen time to the millisecond) read before the stop must equal the set the new node loads; after the restart re-announcements must not be delivered again, confirmations must be updates with valid proofs, and GetTx must return exactly the delivered transaction. The unconfirmed file round trip is exercised for all 8 flag combinations and the empty set. Exploration: histories and restart positions are unbounded. The delay checker is re-issued as a step at generated points, after restarts and after a tracked transaction was announced again to the restarted node: no transaction is reported safe twice.",
        "level_note": "Trusted: overlay accessor reading the unconfirmed map under its lock; clean restart re-issues the three saves Run performs at shutdown. 'Reported safe once' across restart is judged by the C07 monitor, which runs the real delay checker.",
        "runs": [
            {"pkg": "internal/spynode", "test": "TestVerif_C11"},
        ],
    },
    "C07": {
        "level": "exploration",
        "technique": "runtime monitoring: per-txid trace checker over recorded notifications while the real delay-checker goroutine runs concurrently with directly driven tx/block processing; a failpoint-style hook widens the checker's fetch->save window and counts iterations; thorough tier under the Go race detector",
        "level_text": "Each scenario runs the real checkTxDelays goroutine (SafeTxDelay 300 ms) concurrently with generated arrivals from trusted/untrusted/local sources, conflicting arrivals placed before, inside (hook-held fetch->save window) and after the expiry, confirmations racing the checker and clean restarts; the recorded per-txid notification trajectory of both handlers is checked against the trace specification (never safe&unsafe, cancelled=>unsafe, no safe after unsafe/cancelled, unconfirmed safe only after the trusted peer vouched and not before first_send+delay, at most once also across restarts, and within 20 checker iterations when warranted). Exploration: relative timings are unbounded; the hook makes the critical window reachable. Also: a double spend confirmed while the node catches up after a dropped connection (also after a restart), and a conflicting transaction submitted locally.",
        "level_note": "Trusted: harness clock over-approximates the age (only 'too early' is judged), iteration counting through hook node.safe.iteration (absence => inconclusive, never a timer verdict), tx and block processing share the harness goroutine (they race with the checker, not with each other).",
        "runs": [
            {"pkg": "internal/spynode", "test": "TestVerif_C07"},
        ],
    },
    "C12": {
        "level": "exploration",
        "technique": "runtime monitoring: non-interference expressed as trusted-side invariants (convergence oracle, proof provenance, safe/vouching, unverified-peer isolation) monitored while simulated hostile untrusted connections act between the scheduling steps of the deterministic node simulation",
        "level_text": "The well-behaved-trusted-peer scenarios of C01 run with 1-3 simulated untrusted connections that act between scheduling steps with generated hostile traffic: valid and invalid chain proofs, inv/tx before and after verification, block messages for outstanding trusted requests (genuine, and same header with a different body), foreign blocks, addr floods. Monitors: the C01 convergence and in-sync oracles must still hold, every proof is for a block of the trusted tree, a transaction from untrusted peers is never safe, an unverified peer is never asked for a transaction and nothing it sent reaches a handler. Exploration: adversary message sequences and interleavings are unbounded. An L1 run lets the real node open UntrustedNode connections to hostile listeners (verified peers that misbehave, five kinds of liars) while the trusted chain moves (thorough: also under the race detector); a DD run judges the notifications each untrusted delivery produces in transaction histories with reorganisations.",
        "level_note": "Trusted: untrusted connections are driven at the message-handler level with the same shared objects the real UntrustedNode uses (state, mempool, tx channel, block repository); their goroutines and sockets are exercised by the L1/C19 engine only.",
        "runs": [
            {"pkg": "internal/spynode", "test": "TestVerif_C12"},
            {"pkg": "internal/spynode", "test": "TestVerif_C12L1"},
            {"pkg": "internal/spynode", "test": "TestVerif_C12L1", "race": True, "tiers": ["thorough"]},
            {"pkg": "internal/spynode", "test": "TestVerif_C12Delay"},
            {"pkg": "internal/spynode", "test": "TestVerif_C12Tx"},
        ],
        "race_attrib": [r"^github\.com/tokenized/spynode/internal/(handlers|state|storage|spynode)\."],
    },
    "C10": {
        "level": "fault_enumeration",
        "technique": "runtime monitoring with fault enumeration: every crash image (state after each prefix of the recorded storage mutation log) and every single-operation storage fault of generated sync/reorg/shutdown scenarios, judged by a load + single-branch monitor and the C01 convergence oracle",
        "level_text": "Each generated scenario (initial sync incl. header-file roll-over, in-sync extensions with a save per block, reorgs of depth 1-6 also across a file boundary, clean restarts, shutdown) runs on a recording storage wrapper. For every prefix of its mutation log the storage image is rebuilt and a fresh node must load a hash-linked chain lying on one branch of the peer's tree and converge to the peer's best chain; for every j the same deterministic scenario is replayed with the j-th storage operation failing once, after which the in-memory chain must be consistent or a restart on the surviving storage must load and converge. All i and all j are enumerated per scenario (exhaustive per scenario, up to 600 each); the scenario set itself is sampled. After a fault the in-memory chain is probed after every later scheduling step. Two more monitors: the hostile C02 message alphabet (incl. a 1005-header roll-over family) replayed with one storage operation failing, and a slow Save overlapping a cross-file Revert on one repository (two goroutines, race detector) whose storage image must load.",
        "level_note": "Trusted: the storage wrapper's images equal the back-end state after mutation i (atomic whole-key writes; torn writes not modelled), the DS engine's determinism for a fixed seed, the scripted peer of C01 for the convergence part.",
        "runs": [
            {"pkg": "internal/spynode", "test": "TestVerif_C10", "shards": {"quick": 6, "thorough": 16}},
            {"pkg": "internal/spynode", "test": "TestVerif_C10Hostile"},
            {"pkg": "internal/storage", "test": "TestVerif_C10Conc", "race": True},
        ],
        "race_attrib": [r"storage\.\(\*BlockRepository\)\."],
    },
    "C19": {
        "level": "exploration",
        "technique": "runtime monitoring: the real Node.Run over loopback TCP against a scripted peer with Stop / connection faults injected at generated points; oracle = termination (stable-deadlock signature from goroutine dumps), late-callback flag, persisted-state comparison, re-announcement check; failpoint-style hooks widen the shutdown phases",
        "level_text": "Each case runs the real node (all its goroutines and sockets) against a scripted TCP peer and requests Stop at one of ten generated points (refused connection, silent peer, header sync, ten outstanding block requests, inside ProcessBlock, consumer exited with a full tx channel, in-sync traffic, between the shutdown phases, reconnect loop, after a resumed connection). The monitor checks that Stop and Run return - a hang is only a violation when two goroutine dumps 3 s apart show the same node goroutines blocked at the same places - that no handler is called after Stop returned, that a fresh node on the storage loads the chain and unconfirmed set the stopped node had, that it loads as many peer addresses as the stopped node knew, and that a re-established connection resumes from the stored tip without announcing a block twice. Exploration: stop points and timings are unbounded. Twelve stop points, including a transaction backlog behind a slow handler while the application keeps submitting, and a block that failed in the middle of its processing; thorough tier also under the race detector.",
        "level_note": "Trusted: the scripted TCP peer (same model as the DS engine), goroutine-dump parsing for the deadlock signature, wall-clock watchdog only leads to 'inconclusive'.",
        "runs": [
            {"pkg": "internal/spynode", "test": "TestVerif_C19", "shards": {"quick": 10, "thorough": 16}},
            {"pkg": "internal/spynode", "test": "TestVerif_C19", "race": True, "tiers": ["thorough"], "shards": {"thorough": 16}},
        ],
        "race_attrib": [r"^github\.com/tokenized/spynode/internal/(handlers|state|storage|spynode)\."],
    },
}
