//go:build verif

package verifkit

import (
	"context"
	"errors"
	"sort"
	"strings"
	"sync"

	"github.com/tokenized/pkg/storage"
)

// OpKind of a storage operation.
type OpKind string

const (
	OpRead   OpKind = "read"
	OpWrite  OpKind = "write"
	OpRemove OpKind = "remove"
)

// Op is one logged storage operation.
type Op struct {
	Seq     int    `json:"seq"`
	Kind    OpKind `json:"kind"`
	Key     string `json:"key"`
	Len     int    `json:"len"`
	Err     string `json:"err,omitempty"`
	Mut     int    `json:"mut"` // index among mutations (write/remove that were applied), -1 otherwise
	payload []byte
}

// ErrInjected is the error returned by an injected fault.
var ErrInjected = errors.New("verif: injected storage fault")

// Store is an in-memory storage.Storage that copies on write and on read, logs every operation,
// can rebuild the state after any prefix of its mutations (crash images), can fail one chosen
// operation and can park operations matching a predicate.
type Store struct {
	mu   sync.Mutex
	data map[string][]byte

	// RemoveMissingIsError selects the back-end behaviour for deleting a key that does not
	// exist: true = ErrNotFound (mock storage, S3 NoSuchKey), false = nil (filesystem RemoveAll).
	RemoveMissingIsError bool

	logging bool
	base    map[string][]byte // state when logging was switched on
	log     []Op
	nMut    int
	nOps    int

	failAt  int // operation index (0-based, counted from FailFrom) that fails; -1 none
	failed  bool
	park    func(Op) bool
	parkGate chan struct{}
	parked  int
}

func NewStore(removeMissingIsError bool) *Store {
	return &Store{data: map[string][]byte{}, RemoveMissingIsError: removeMissingIsError,
		failAt: -1}
}

func cp(b []byte) []byte {
	if b == nil {
		return nil
	}
	c := make([]byte, len(b))
	copy(c, b)
	return c
}

func cpMap(m map[string][]byte) map[string][]byte {
	c := make(map[string][]byte, len(m))
	for k, v := range m {
		c[k] = cp(v)
	}
	return c
}

// StartLog begins recording; the current contents become the base image.
func (s *Store) StartLog() {
	s.mu.Lock()
	defer s.mu.Unlock()
	s.logging = true
	s.base = cpMap(s.data)
	s.log = nil
	s.nMut = 0
	s.nOps = 0
}

func (s *Store) Log() []Op {
	s.mu.Lock()
	defer s.mu.Unlock()
	return append([]Op(nil), s.log...)
}

func (s *Store) Mutations() int {
	s.mu.Lock()
	defer s.mu.Unlock()
	return s.nMut
}

func (s *Store) Ops() int {
	s.mu.Lock()
	defer s.mu.Unlock()
	return s.nOps
}

// Image returns a new Store holding the state after the first n logged mutations.
func (s *Store) Image(n int) *Store {
	s.mu.Lock()
	defer s.mu.Unlock()
	img := NewStore(s.RemoveMissingIsError)
	img.data = cpMap(s.base)
	for _, op := range s.log {
		if op.Mut < 0 {
			continue
		}
		if op.Mut >= n {
			break
		}
		switch op.Kind {
		case OpWrite:
			img.data[op.Key] = cp(op.payload)
		case OpRemove:
			delete(img.data, op.Key)
		}
	}
	return img
}

// Clone copies the current contents into a fresh store.
func (s *Store) Clone() *Store {
	s.mu.Lock()
	defer s.mu.Unlock()
	c := NewStore(s.RemoveMissingIsError)
	c.data = cpMap(s.data)
	return c
}

// FailAt makes the n-th operation from now (0-based) return ErrInjected, once.
func (s *Store) FailAt(n int) {
	s.mu.Lock()
	s.failAt = s.nOps + n
	s.failed = false
	s.mu.Unlock()
}

func (s *Store) FaultFired() bool {
	s.mu.Lock()
	defer s.mu.Unlock()
	return s.failed
}

// Park holds every operation for which match returns true until Release is called.
func (s *Store) Park(match func(Op) bool) {
	s.mu.Lock()
	s.park = match
	s.parkGate = make(chan struct{})
	s.parked = 0
	s.mu.Unlock()
}

func (s *Store) Parked() int {
	s.mu.Lock()
	defer s.mu.Unlock()
	return s.parked
}

func (s *Store) Release() {
	s.mu.Lock()
	if s.parkGate != nil {
		close(s.parkGate)
	}
	s.park = nil
	s.parkGate = nil
	s.mu.Unlock()
}

// pre handles parking and fault injection; returns an error to inject.
func (s *Store) pre(kind OpKind, key string, n int) error {
	s.mu.Lock()
	idx := s.nOps
	s.nOps++
	var gate chan struct{}
	if s.park != nil && s.park(Op{Kind: kind, Key: key, Len: n}) {
		gate = s.parkGate
		s.parked++
	}
	fail := s.failAt == idx
	if fail {
		s.failed = true
	}
	s.mu.Unlock()
	if gate != nil {
		<-gate
	}
	if fail {
		return ErrInjected
	}
	return nil
}

func (s *Store) record(kind OpKind, key string, payload []byte, err error, applied bool) {
	if !s.logging {
		return
	}
	op := Op{Seq: len(s.log), Kind: kind, Key: key, Len: len(payload), Mut: -1}
	if err != nil {
		op.Err = err.Error()
	}
	if applied {
		op.Mut = s.nMut
		s.nMut++
		op.payload = cp(payload)
	}
	s.log = append(s.log, op)
}

func (s *Store) Write(ctx context.Context, key string, body []byte, options *storage.Options) error {
	if err := s.pre(OpWrite, key, len(body)); err != nil {
		s.mu.Lock()
		s.record(OpWrite, key, nil, err, false)
		s.mu.Unlock()
		return err
	}
	s.mu.Lock()
	defer s.mu.Unlock()
	s.data[key] = cp(body)
	s.record(OpWrite, key, body, nil, true)
	return nil
}

func (s *Store) Read(ctx context.Context, key string) ([]byte, error) {
	if err := s.pre(OpRead, key, 0); err != nil {
		s.mu.Lock()
		s.record(OpRead, key, nil, err, false)
		s.mu.Unlock()
		return nil, err
	}
	s.mu.Lock()
	defer s.mu.Unlock()
	b, ok := s.data[key]
	if !ok {
		s.record(OpRead, key, nil, storage.ErrNotFound, false)
		return nil, storage.ErrNotFound
	}
	s.record(OpRead, key, nil, nil, false)
	return cp(b), nil
}

func (s *Store) Remove(ctx context.Context, key string) error {
	if err := s.pre(OpRemove, key, 0); err != nil {
		s.mu.Lock()
		s.record(OpRemove, key, nil, err, false)
		s.mu.Unlock()
		return err
	}
	s.mu.Lock()
	defer s.mu.Unlock()
	if _, ok := s.data[key]; !ok {
		if s.RemoveMissingIsError {
			s.record(OpRemove, key, nil, storage.ErrNotFound, false)
			return storage.ErrNotFound
		}
		s.record(OpRemove, key, nil, nil, false)
		return nil
	}
	delete(s.data, key)
	s.record(OpRemove, key, nil, nil, true)
	return nil
}

func (s *Store) Search(ctx context.Context, query map[string]string) ([][]byte, error) {
	s.mu.Lock()
	defer s.mu.Unlock()
	path := query["path"]
	keys := make([]string, 0)
	for k := range s.data {
		if strings.HasPrefix(k, path) {
			keys = append(keys, k)
		}
	}
	sort.Strings(keys)
	var out [][]byte
	for _, k := range keys {
		out = append(out, cp(s.data[k]))
	}
	return out, nil
}

func (s *Store) Clear(ctx context.Context, query map[string]string) error {
	s.mu.Lock()
	defer s.mu.Unlock()
	path := query["path"]
	for k := range s.data {
		if strings.HasPrefix(k, path) {
			delete(s.data, k)
		}
	}
	return nil
}

func (s *Store) List(ctx context.Context, path string) ([]string, error) {
	s.mu.Lock()
	defer s.mu.Unlock()
	var keys []string
	for k := range s.data {
		if strings.HasPrefix(k, path) {
			keys = append(keys, k)
		}
	}
	sort.Strings(keys)
	return keys, nil
}

func (s *Store) Copy(ctx context.Context, fromKey, toKey string) error {
	s.mu.Lock()
	defer s.mu.Unlock()
	b, ok := s.data[fromKey]
	if !ok {
		return storage.ErrNotFound
	}
	s.data[toKey] = cp(b)
	return nil
}

// Keys lists all keys (sorted).
func (s *Store) Keys() []string {
	s.mu.Lock()
	defer s.mu.Unlock()
	var keys []string
	for k := range s.data {
		keys = append(keys, k)
	}
	sort.Strings(keys)
	return keys
}

// Get returns a copy of a value without logging.
func (s *Store) Get(key string) ([]byte, bool) {
	s.mu.Lock()
	defer s.mu.Unlock()
	b, ok := s.data[key]
	return cp(b), ok
}

// Put sets a value without logging or faults.
func (s *Store) Put(key string, b []byte) {
	s.mu.Lock()
	s.data[key] = cp(b)
	s.mu.Unlock()
}

var _ storage.Storage = (*Store)(nil)
