//go:build verif

package spynode

import (
	"bytes"
	"context"
	"fmt"
	"sync"
	"sync/atomic"
	"time"

	"github.com/tokenized/logger"
	"github.com/tokenized/pkg/bitcoin"
	"github.com/tokenized/pkg/wire"
	"github.com/tokenized/spynode/internal/handlers"
	"github.com/tokenized/spynode/internal/platform/config"
	"github.com/tokenized/spynode/internal/state"
	"github.com/tokenized/spynode/internal/verifkit"
	"github.com/tokenized/spynode/pkg/client"
)

// ---- recording client.Handler (vrec) -----------------------------------------------------------------

type recEvent struct {
	Seq     int
	At      time.Duration // monotonic, since the log was created
	Handler int
	Kind    string // tx update headers insync message
	TxID    bitcoin.Hash32
	Tx      *client.Tx
	State   client.TxState
	Height  int
	Header  wire.BlockHeader
}

func (e recEvent) String() string {
	switch e.Kind {
	case "tx", "update":
		p := ""
		if e.State.MerkleProof != nil {
			p = fmt.Sprintf(" proof(idx=%d,block=%s)", e.State.MerkleProof.Index, e.State.MerkleProof.BlockHeader.BlockHash().String()[:8])
		}
		return fmt.Sprintf("#%d h%d %s %s safe=%v unsafe=%v cancelled=%v depth=%d%s", e.Seq, e.Handler, e.Kind, e.TxID.String()[:8], e.State.Safe, e.State.UnSafe, e.State.Cancelled, e.State.UnconfirmedDepth, p)
	case "headers":
		return fmt.Sprintf("#%d h%d headers height=%d %s prev=%s", e.Seq, e.Handler, e.Height, e.Header.BlockHash().String()[:8], e.Header.PrevBlock.String()[:8])
	}
	return fmt.Sprintf("#%d h%d %s", e.Seq, e.Handler, e.Kind)
}

type eventLog struct {
	mu        sync.Mutex
	start     time.Time
	events    []recEvent
	stopped   int32 // set when Stop() returned
	afterStop int32
	onEvent   func(recEvent) // called outside the lock, from the node's goroutine
}

func newEventLog() *eventLog { return &eventLog{start: time.Now()} }

func (l *eventLog) add(e recEvent) {
	if atomic.LoadInt32(&l.stopped) != 0 {
		atomic.AddInt32(&l.afterStop, 1)
	}
	l.mu.Lock()
	e.Seq = len(l.events)
	e.At = time.Since(l.start)
	l.events = append(l.events, e)
	cb := l.onEvent
	l.mu.Unlock()
	if cb != nil {
		cb(e)
	}
}

func (l *eventLog) snapshot() []recEvent {
	l.mu.Lock()
	defer l.mu.Unlock()
	return append([]recEvent(nil), l.events...)
}

func (l *eventLog) strings(from int) []string {
	var out []string
	for _, e := range l.snapshot() {
		if e.Seq >= from {
			out = append(out, e.String())
		}
	}
	return out
}

type recorder struct {
	id  int
	log *eventLog
}

func (r *recorder) HandleTx(ctx context.Context, tx *client.Tx) {
	c := tx.Copy()
	r.log.add(recEvent{Handler: r.id, Kind: "tx", TxID: *tx.Tx.TxHash(), Tx: &c, State: c.State})
}

func (r *recorder) HandleTxUpdate(ctx context.Context, u *client.TxUpdate) {
	c := u.Copy()
	r.log.add(recEvent{Handler: r.id, Kind: "update", TxID: c.TxID, State: c.State})
}

func (r *recorder) HandleHeaders(ctx context.Context, h *client.Headers) {
	for i, hdr := range h.Headers {
		r.log.add(recEvent{Handler: r.id, Kind: "headers", Height: int(h.StartHeight) + i, Header: *hdr})
	}
}

func (r *recorder) HandleInSync(ctx context.Context) {
	r.log.add(recEvent{Handler: r.id, Kind: "insync"})
}

func (r *recorder) HandleMessage(ctx context.Context, p client.MessagePayload) {
	r.log.add(recEvent{Handler: r.id, Kind: "message"})
}

// ---- fetchers over the universe -------------------------------------------------------------------------

type uniFetcher struct {
	uni   *verifkit.Universe
	mu    sync.Mutex
	fail  bool
	calls int
}

func (f *uniFetcher) GetOutputs(ctx context.Context, ops []wire.OutPoint) ([]bitcoin.UTXO, error) {
	f.mu.Lock()
	f.calls++
	fail := f.fail
	f.mu.Unlock()
	if fail {
		return nil, fmt.Errorf("verif: output fetcher failing")
	}
	return f.uni.Lookup(ops)
}

func (f *uniFetcher) GetTx(ctx context.Context, txid bitcoin.Hash32) (*wire.MsgTx, error) {
	return nil, fmt.Errorf("verif: unknown tx")
}

// ---- direct-drive environment -------------------------------------------------------------------------------

var quietCtx = logger.ContextWithNoLogger(context.Background())

type ddOpt struct {
	store       *verifkit.Store
	startHash   bitcoin.Hash32
	pushDatas   [][]byte
	contracts   bool
	safeDelayMS int
	uni         *verifkit.Universe
	handlers    int
}

type ddEnv struct {
	ctx     context.Context
	store   *verifkit.Store
	cfg     config.Config
	node    *Node
	log     *eventLog
	fetch   *uniFetcher
	sent    []wire.Message // everything the node queued for the trusted peer, in order
	procErr error          // first error ProcessBlock returned that the real loop would abort on
}

func newDD(opt ddOpt) (*ddEnv, error) {
	e := &ddEnv{ctx: quietCtx, store: opt.store, log: newEventLog()}
	if e.store == nil {
		e.store = verifkit.NewStore(false)
	}
	e.cfg = config.Config{Net: bitcoin.MainNet, IsTest: true, NodeAddress: "127.0.0.1:1",
		UserAgent: "/verif/", StartHash: opt.startHash, UntrustedCount: 0,
		SafeTxDelay: opt.safeDelayMS, ShotgunCount: 1, MaxRetries: 1, RetryDelay: 10}
	e.fetch = &uniFetcher{uni: opt.uni}
	e.node = NewNode(e.cfg, e.store, e.fetch, e.fetch)
	n := opt.handlers
	if n == 0 {
		n = 2
	}
	for i := 0; i < n; i++ {
		e.node.RegisterHandler(&recorder{id: i, log: e.log})
	}
	if len(opt.pushDatas) > 0 {
		e.node.SubscribePushDatas(e.ctx, opt.pushDatas)
	}
	if opt.contracts {
		e.node.SubscribeContracts(e.ctx)
	}
	if err := e.node.load(e.ctx); err != nil {
		return nil, err
	}
	e.node.outgoing.Open(100000)
	e.node.unconfTxChannel.Open(100000)
	return e, nil
}

// drain collects what the node queued for the trusted peer.
func (e *ddEnv) drain() []wire.Message {
	var out []wire.Message
	for {
		select {
		case m := <-e.node.outgoing.Channel:
			out = append(out, m)
			e.sent = append(e.sent, m)
		default:
			return out
		}
	}
}

// handle feeds one message from the trusted peer through the node's dispatcher.
func (e *ddEnv) handle(m wire.Message) []wire.Message {
	e.node.handleMessage(e.ctx, m)
	return e.drain()
}

func headersMsg(blocks ...*verifkit.Block) *wire.MsgHeaders {
	m := wire.NewMsgHeaders()
	for _, b := range blocks {
		h := b.Header
		m.AddBlockHeader(&h)
	}
	return m
}

// blockMsg returns the block as the node would read it off the wire (MsgParseBlock) or as MsgBlock.
func blockMsg(b *wire.MsgBlock, parse bool) wire.Message {
	if !parse {
		return b
	}
	p, err := verifkit.ParseMsg(b)
	if err != nil {
		panic(err)
	}
	return p
}

// step re-issues the body of processBlocks once: pop, ProcessBlock, request more.
// Returns whether a block was popped.
func (e *ddEnv) step() bool {
	block := e.node.state.NextBlock()
	if block == nil {
		return false
	}
	e.finishStep(block)
	return true
}

// finishStep is the part of the block-processor loop body after the pop: ProcessBlock, then ask for
// more requests. (Between the pop and ProcessBlock the real goroutine can be overtaken by the
// incoming goroutine; the DS scheduler uses pop + finishStep to explore that.)
func (e *ddEnv) finishStep(block wire.Block) bool {
	err := e.node.ProcessBlock(e.ctx, block)
	if f, ok := interface{}(e.node.state).(interface{ FinishedBlock() }); ok {
		f.FinishedBlock() // as processBlocks does after ProcessBlock returned
	}
	if err != nil {
		c := errorsCause(err)
		if c != ErrBlockNotNextBlock && c != ErrBlockNotAdded {
			if e.procErr == nil {
				e.procErr = err
			}
		}
	}
	getBlocks := wire.NewMsgGetData()
	for {
		h, _ := e.node.state.GetNextBlockToRequest()
		if h == nil {
			break
		}
		getBlocks.AddInvVect(wire.NewInvVect(wire.InvTypeBlock, h))
	}
	if len(getBlocks.InvList) > 0 {
		e.node.queueOutgoing(getBlocks)
	}
	return true
}

// pumpTxs re-issues the body of processUnconfirmedTxs until the channel is empty.
func (e *ddEnv) pumpTxs() error {
	for {
		select {
		case tx := <-e.node.unconfTxChannel.Channel:
			if err := e.node.processUnconfirmedTx(e.ctx, tx); err != nil {
				return err
			}
		default:
			return nil
		}
	}
}

func errorsCause(err error) error {
	type causer interface{ Cause() error }
	for err != nil {
		c, ok := err.(causer)
		if !ok {
			break
		}
		err = c.Cause()
	}
	return err
}

// newUntrusted builds the message handlers of one untrusted connection on this node.
type untrustedConn struct {
	st       *state.UntrustedState
	tracker  *state.TxTracker
	handlers map[string]handlers.MessageHandler
	sent     []wire.Message
}

func (e *ddEnv) newUntrusted(addr string) *untrustedConn {
	u := &untrustedConn{st: state.NewUntrustedState(), tracker: state.NewTxTracker()}
	u.handlers = handlers.NewUntrustedMessageHandlers(e.ctx, e.node.state, u.st, e.node.peers,
		e.node.blocks, u.tracker, e.node.memPool, &e.node.unconfTxChannel, e.node, addr)
	return u
}

// handle mirrors UntrustedNode.handleMessage: responses are what would be written to that peer.
func (u *untrustedConn) handle(ctx context.Context, m wire.Message) ([]wire.Message, error) {
	h, ok := u.handlers[m.Command()]
	if !ok {
		return nil, nil
	}
	resp, err := h.Handle(ctx, m)
	u.sent = append(u.sent, resp...)
	return resp, err
}

type recordingTransmitter struct{ msgs []wire.Message }

func (t *recordingTransmitter) TransmitMessage(m wire.Message) bool {
	t.msgs = append(t.msgs, m)
	return true
}

func txBytes(tx *wire.MsgTx) []byte {
	var buf bytes.Buffer
	tx.Serialize(&buf)
	return buf.Bytes()
}

func invHashes(msgs []wire.Message, typ wire.InvType) []bitcoin.Hash32 {
	var out []bitcoin.Hash32
	for _, m := range msgs {
		if gd, ok := m.(*wire.MsgGetData); ok {
			for _, iv := range gd.InvList {
				if iv.Type == typ {
					out = append(out, iv.Hash)
				}
			}
		}
	}
	return out
}
