//go:build verif

package spynode

import (
	"math/rand"
	"testing"

	"github.com/tokenized/pkg/wire"
	"github.com/tokenized/spynode/internal/verifkit"
)

// ---- C02: hash-linked chain for any input from the trusted peer ---------------------------------------

type c02Op struct {
	Kind  string `json:"kind"` // headers block step
	Names string `json:"names"`
	msg   func() wire.Message
}

type c02World struct {
	tree  *verifkit.Tree
	named map[string]*verifkit.Block
	ops   []c02Op
}

func c02Build() *c02World {
	w := &c02World{tree: verifkit.NewTree(), named: map[string]*verifkit.Block{}}
	g := w.tree.Genesis
	a1 := w.tree.Extend(g, nil)
	a2 := w.tree.Extend(a1, nil)
	a3 := w.tree.Extend(a2, nil)
	a4 := w.tree.Extend(a3, nil)
	b2 := w.tree.Extend(a1, nil)
	b3 := w.tree.Extend(b2, nil)
	b4 := w.tree.Extend(b3, nil)
	// two headers that connect to nothing known
	other := verifkit.NewTree()
	ux := other.Extend(other.Extend(other.Genesis, nil), nil) // parent unknown to the node
	u1 := other.Extend(ux, nil)
	u2 := other.Extend(u1, nil)
	w.tree.ByHash[u1.Hash] = u1
	w.tree.ByHash[u2.Hash] = u2
	for n, b := range map[string]*verifkit.Block{"A1": a1, "A2": a2, "A3": a3, "A4": a4, "B2": b2, "B3": b3, "B4": b4, "U1": u1, "U2": u2} {
		w.named[n] = b
	}
	hl := func(names ...string) c02Op {
		var bs []*verifkit.Block
		s := ""
		for _, n := range names {
			bs = append(bs, w.named[n])
			s += n + " "
		}
		return c02Op{Kind: "headers", Names: s, msg: func() wire.Message { return headersMsg(bs...) }}
	}
	w.ops = []c02Op{hl(), hl("A1"), hl("A2"), hl("A3"), hl("A1", "A2"), hl("A1", "A2", "A3", "A4"), hl("A2", "A3"),
		hl("B2"), hl("B2", "B3", "B4"), hl("B3"), hl("A3", "A2"), hl("U1"), hl("U2"), hl("A1", "B2"), hl("A2", "B2"), hl("A4")}
	for _, n := range []string{"A1", "A2", "A3", "A4", "B2", "B3", "B4", "U1"} {
		b := w.named[n]
		for _, parse := range []bool{true} {
			parse := parse
			w.ops = append(w.ops, c02Op{Kind: "block", Names: n, msg: func() wire.Message { return blockMsg(b.Msg(), parse) }})
		}
	}
	w.ops = append(w.ops, c02Op{Kind: "block", Names: "A2-corrupt-body", msg: func() wire.Message {
		return blockMsg(a2.MsgWithTxs([]*wire.MsgTx{a2.Txs[0], verifkit.Coinbase(77, 77)}), true)
	}})
	w.ops = append(w.ops, c02Op{Kind: "step", Names: ""})
	return w
}

func c02Run(w *c02World, startName string, seq []int) (*dsSim, error) {
	e, err := newDD(ddOpt{startHash: w.named[startName].Hash})
	if err != nil {
		return nil, err
	}
	peer := newSimPeer(w.tree, w.named["A4"])
	s := newDSSim(e, peer, rand.New(rand.NewSource(1)), simPolicy{probeEvery: true})
	for _, i := range seq {
		op := w.ops[i]
		if op.Kind == "step" {
			s.guard("block processor step", func() { s.e.step() })
			s.afterStep("step")
		} else {
			m := op.msg()
			s.guard("handleMessage("+op.Kind+" "+op.Names+")", func() { s.e.node.handleMessage(s.e.ctx, m) })
			s.afterStep(op.Kind + " " + op.Names)
		}
		s.e.drain()
		if len(s.finds) > 0 {
			break
		}
	}
	s.checkCallbacks(2)
	return s, nil
}

func c02SeqString(w *c02World, seq []int) string {
	out := ""
	for _, i := range seq {
		out += w.ops[i].Kind + "(" + w.ops[i].Names + "); "
	}
	return out
}

func TestVerif_C02(t *testing.T) {
	rep := verifkit.NewReport("C02")
	rep.Rule = "DD: every sequence up to depth D (and random length-30 sequences) over 26 inputs {16 headers lists (single, linked runs, unlinked order, siblings, unknown parents, empty), 9 block messages (every block of a 2-branch tree of 7 blocks, one with a corrupted body, one unknown), block-processor step} for start block A1 / A3 / B3; after every step: parent links, height<->hash inverse maps, LastHash, and the HandleHeaders callback sequence of both handlers. DS: the C01 scenarios with the probe after every scheduling step. Non-trivial = sequence contains a fork header or an unlinked/unknown list; distinct by sequence"
	rep.Assumptions = []string{"the harness re-issues the three calls of the block processor loop as one 'step'", "panics are recovered and reported (in the real node they end the process)"}
	defer rep.Write()

	w := c02Build()
	depth := verifkit.N(3, 4)
	starts := []string{"A1", "A3", "B3"}
	var count int64
	var rec func(prefix []int, start string)
	report := func(ci int, s *dsSim, start string, seq []int) {
		for _, f := range s.finds {
			if f.prop != "C02" && f.sig[:9] != "C01/panic" {
				continue
			}
			sig := f.sig
			if f.prop != "C02" {
				sig = "C02/panic/" + f.sig[10:]
			}
			wit := s.witness()
			wit["start"] = start
			wit["ops"] = c02SeqString(w, seq)
			rep.Finding(ci, sig, f.detail+" | start="+start+" ops: "+c02SeqString(w, seq), wit)
		}
	}
	rec = func(prefix []int, start string) {
		if len(prefix) == depth {
			return
		}
		for i := range w.ops {
			seq := append(append([]int(nil), prefix...), i)
			s, err := c02Run(w, start, seq)
			count++
			if err != nil {
				rep.Inconc(-1, err.Error())
				return
			}
			report(-1, s, start, seq)
			if len(s.finds) == 0 {
				rec(seq, start)
			}
		}
	}
	shard := 0
	for _, start := range starts {
		for i := range w.ops {
			shard++
			if !verifkit.Mine(shard) || verifkit.OnlyCase() >= 0 {
				continue
			}
			seq := []int{i}
			s, err := c02Run(w, start, seq)
			count++
			if err != nil {
				rep.Inconc(-1, err.Error())
				continue
			}
			report(-1, s, start, seq)
			if len(s.finds) == 0 {
				rec(seq, start)
			}
		}
	}
	rep.Event("exhaustive_sequences", count)
	rep.Note("bounded-exhaustive part: %d inputs, depth %d, 3 start blocks", len(w.ops), depth)

	n := verifkit.N(3000, 120000)
	for ci := 0; ci < n; ci++ {
		if !verifkit.Mine(ci) {
			continue
		}
		ci := ci
		verifkit.RunCase(rep, ci, func() {
			r := verifkit.Rand("C02/random", ci)
			start := starts[r.Intn(len(starts))]
			var seq []int
			nt := false
			for k := 0; k < 30; k++ {
				i := r.Intn(len(w.ops))
				if r.Intn(3) == 0 {
					i = len(w.ops) - 1 // step
				}
				seq = append(seq, i)
				if w.ops[i].Kind == "headers" && (len(w.ops[i].Names) > 3 || w.ops[i].Names == "") {
					nt = true
				}
			}
			s, err := c02Run(w, start, seq)
			if err != nil {
				rep.Inconc(ci, err.Error())
				return
			}
			report(ci, s, start, seq)
			rep.Event("random_sequences", 1)
			rep.Event("steps_probed", int64(s.steps))
			rep.Event("max_height_reached", 0)
			rep.Case(start+c02SeqString(w, seq), nt)
			if rep.WantSample() {
				rep.Sample(map[string]interface{}{"start": start, "ops": c02SeqString(w, seq), "final_height": s.e.node.blocks.LastHeight(), "callbacks": s.e.log.strings(0)})
			}
		})
	}
}

// C02 on the well-behaved-peer scenarios, probe after every scheduling step.
func TestVerif_C02DS(t *testing.T) {
	rep := verifkit.NewReport("C02")
	defer rep.Write()
	runDSProperty(t, "C02", rep, verifkit.N(150, 3000), verifkit.N(6, 40), true)
}

// C13 on the wire: window, byte accounting, once-per-connection and chain order of block requests
// in the well-behaved-peer scenarios (also with duplicated / permuted block replies).
func TestVerif_C13DS(t *testing.T) {
	rep := verifkit.NewReport("C13")
	defer rep.Write()
	runDSProperty(t, "C13", rep, verifkit.N(300, 12000), verifkit.N(8, 200), false)
}
