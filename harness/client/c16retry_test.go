//go:build verif

package client

import (
	"fmt"
	"sync"
	"testing"
	"time"

	"github.com/pkg/errors"
	"github.com/tokenized/spynode/internal/verifkit"
)

// ---- C16: a call whose request could not be sent, and its retry -----------------------------------
//
// The server holds its accept back for longer than the client's message time-out.  Calls issued in
// that window fail (their message waits behind the handshake and the wait for the send times out).
// Once the handshake is through the application asks again for the same keys; the server ignores
// the first message it sees for a key (the late copy of the failed call) and answers the second.
// Every retry must return that answer: a call that has failed must not leave anything behind that
// takes the response to a later call.

const (
	c16rMessageTimeout = 150 * time.Millisecond
	c16rAcceptDelay    = 380 * time.Millisecond
)

func TestVerif_C16Retry(t *testing.T) {
	rep := verifkit.NewReport("C16")
	rep.Rule = "slow-handshake rounds: calls issued before the server's (delayed) accept fail when their send times out; the same keys are asked for again after the handshake and the server answers only the second message per key; oracle: every retry returns its answer"
	defer rep.Write()

	kinds := []string{"GetTx", "GetHeaders", "GetHeader", "SendTx", "SaveTxs", "ReprocessTx", "MarkHeaderInvalid", "MarkHeaderNotInvalid"}
	n := verifkit.N(30, 1200)
	for ci := 0; ci < n; ci++ {
		if !verifkit.Mine(ci) {
			continue
		}
		r := verifkit.Rand("C16/retry", ci)
		connType := ConnectionTypeFull
		if r.Intn(2) == 0 {
			connType = ConnectionTypeControl
		}
		script := &c16Script{byKey: map[string]*c16Call{}}
		var mu sync.Mutex
		seen := map[string]int{}
		ignored := 0
		k := 1 + r.Intn(6)
		var first, retry, fresh []*c16Call
		for i := 0; i < k; i++ {
			kind := kinds[r.Intn(len(kinds))]
			seed := uint32(3000000 + ci*100 + i)
			first = append(first, c16MakeCall(kind, seed))
			c2 := c16MakeCall(kind, seed)
			c2.Action, c2.DelayMS = "answer", []int{0, 5, 30}[r.Intn(3)]
			retry = append(retry, c2)
			script.byKey[c16Key(kind, c2.key, c2.height)] = c2
		}
		// calls for keys that were never asked for before, mixed into the retries
		for i := 0; i < r.Intn(3); i++ {
			c := c16MakeCall(kinds[r.Intn(len(kinds))], uint32(3000000+ci*100+50+i))
			c.Action, c.DelayMS = "answer", r.Intn(20)
			fresh = append(fresh, c)
			script.byKey[c16Key(c.Kind, c.key, c.height)] = c
			seen[c16Key(c.Kind, c.key, c.height)] = 1 // answered at the first message
		}
		accepted := make(chan struct{})
		var acceptedOnce sync.Once
		e, err := newCEnv(cOpt{connType: connType, requestTimeout: c16Timeout, messageTimeout: c16rMessageTimeout,
			handshakeTO: 3 * time.Second, retryDelay: 30 * time.Millisecond, autoReady: true},
			func(vc *vconn) {
				time.Sleep(c16rAcceptDelay)
				vc.sendAccept("", nil)
				acceptedOnce.Do(func() { close(accepted) }) // (the client may connect again)
				for m := range vc.in {
					key, isReq := script.keyOfRequest(m)
					if !isReq {
						continue
					}
					mu.Lock()
					seen[key]++
					nth := seen[key]
					mu.Unlock()
					c := script.byKey[key]
					if c == nil || nth < 2 {
						mu.Lock()
						ignored++
						mu.Unlock()
						continue // the late copy of a failed call: not answered
					}
					script.wg.Add(1)
					go func(c *c16Call) {
						defer script.wg.Done()
						time.Sleep(time.Duration(c.DelayMS) * time.Millisecond)
						resp := script.response(c)
						script.mu.Lock()
						c.wroteAt = time.Since(vc.srv.start)
						script.mu.Unlock()
						vc.send(resp)
					}(c)
				}
			})
		if err != nil {
			rep.Inconc(ci, "env: "+err.Error())
			continue
		}
		if !waitFor(2*time.Second, func() bool { return len(e.srv.connections()) > 0 }) {
			rep.Inconc(ci, "no connection")
			e.stop(3 * time.Second)
			continue
		}
		run := func(calls []*c16Call) bool {
			var wg sync.WaitGroup
			for _, c := range calls {
				wg.Add(1)
				go func(c *c16Call) { defer wg.Done(); c16DoCall(e, c) }(c)
			}
			done := make(chan struct{})
			go func() { wg.Wait(); close(done) }()
			select {
			case <-done:
				return true
			case <-time.After(c16Timeout*3 + 5*time.Second):
				return false
			}
		}
		// wave 0: before the accept
		if !run(first) {
			rep.Inconc(ci, "calls did not return within the watchdog")
			e.stop(3 * time.Second)
			continue
		}
		failed := 0
		for _, c := range first {
			if c.err != nil {
				failed++
			}
		}
		select {
		case <-accepted:
		case <-time.After(3 * time.Second):
		}
		if !waitFor(3*time.Second, func() bool { return e.rc.IsAccepted(vQuiet) }) {
			rep.Inconc(ci, "handshake did not complete")
			e.stop(3 * time.Second)
			continue
		}
		// let the late copies reach the server (it ignores them)
		waitFor(1500*time.Millisecond, func() bool { mu.Lock(); defer mu.Unlock(); return ignored >= failed })
		time.Sleep(30 * time.Millisecond)
		// wave 1: the same keys again, plus fresh ones
		wave1 := append(append([]*c16Call(nil), retry...), fresh...)
		if !run(wave1) {
			rep.Inconc(ci, "retries did not return within the watchdog")
			e.stop(3 * time.Second)
			continue
		}
		script.wg.Wait()
		e.stop(3 * time.Second)

		witness := func() interface{} {
			var w []string
			for wi, cs := range [][]*c16Call{first, wave1} {
				for _, c := range cs {
					w = append(w, fmt.Sprintf("wave%d %s seed=%d start=%v end=%v wrote=%v err=%s okValue=%v %s", wi, c.Kind, c.Seed, c.start.Round(time.Millisecond), c.end.Round(time.Millisecond), c.wroteAt.Round(time.Millisecond), fmtErr(c.err), c.okValue, c.valueErr))
				}
			}
			mu.Lock()
			defer mu.Unlock()
			return map[string]interface{}{"connection_type": connType.String(), "calls": w, "accept_delay_ms": int(c16rAcceptDelay / time.Millisecond), "message_timeout_ms": int(c16rMessageTimeout / time.Millisecond), "messages_ignored_by_server": ignored}
		}
		for _, c := range first {
			if c.err == nil {
				// the server never answered this message
				rep.Finding(ci, "C16/"+c.Kind+"/unanswered-call-returned", fmt.Sprintf("call issued before the handshake and never answered returned err=nil okValue=%v", c.okValue), witness())
			}
		}
		rep.Event("calls_failed_before_handshake", int64(failed))
		for _, c := range wave1 {
			rep.Event("retry_calls:"+c.Kind, 1)
			if c.err == nil && c.okValue {
				continue
			}
			isTimeout := c.err != nil && errors.Cause(c.err) == ErrTimeout
			switch {
			case c.valueErr != "":
				rep.Finding(ci, "C16/"+c.Kind+"/wrong-response", c.valueErr, witness())
			case isTimeout && c.wroteAt > 0 && c.wroteAt-c.start < c16Timeout-120*time.Millisecond:
				if verifkit.OnlyCase() >= 0 {
					rep.Finding(ci, "C16/"+c.Kind+"/answered-call-timed-out/retry-after-failed-send", fmt.Sprintf("%s: the first call for this key failed before the handshake; the retry was answered %v after it started and still failed with Timeout", c.Kind, (c.wroteAt-c.start).Round(time.Millisecond)), witness())
				} else {
					rep.Inconc(ci, c.Kind+" answered but timed out (re-run alone)")
				}
			case isTimeout:
				rep.Event("answered_late_under_load", 1)
			default:
				rep.Finding(ci, "C16/"+c.Kind+"/unexpected-error", fmtErr(c.err), witness())
			}
		}
		rep.Case(fmt.Sprintf("retry/%v/failed=%d/fresh=%d", connType, failed, len(fresh)), failed > 0)
		if rep.WantSample() {
			rep.Sample(witness())
		}
	}
}
