//go:build verif

package state

import (
	"time"

	"github.com/tokenized/pkg/bitcoin"
	"github.com/tokenized/pkg/wire"
)

// Overlay accessors used by the /verif monitors (not part of the repository).  They read
// unexported fields under the structure's own lock.

type VerifReq struct {
	Hash    bitcoin.Hash32
	HasBody bool
	Size    int
	Block   wire.Block
}

type VerifQueueSnap struct {
	Requested   []VerifReq
	ToRequest   []bitcoin.Hash32
	LastSaved   bitcoin.Hash32
	PendingSize int
}

func (state *State) VerifQueue() VerifQueueSnap {
	state.lock.Lock()
	defer state.lock.Unlock()
	s := VerifQueueSnap{LastSaved: state.lastSavedHash, PendingSize: state.pendingBlockSize}
	for _, r := range state.blocksRequested {
		s.Requested = append(s.Requested, VerifReq{Hash: r.hash, HasBody: r.block != nil,
			Size: r.size, Block: r.block})
	}
	s.ToRequest = append(s.ToRequest, state.blocksToRequest...)
	return s
}

// VerifClone deep-copies the request-queue part of the state (for bounded-exhaustive search).
func (state *State) VerifClone() *State {
	state.lock.Lock()
	defer state.lock.Unlock()
	c := NewState()
	c.startHeight = state.startHeight
	c.isInSync = state.isInSync
	c.pendingSync = state.pendingSync
	c.lastSavedHash = state.lastSavedHash
	c.pendingBlockSize = state.pendingBlockSize
	if state.processingBlock != nil {
		h := *state.processingBlock
		c.processingBlock = &h
	}
	for _, r := range state.blocksRequested {
		cr := *r
		c.blocksRequested = append(c.blocksRequested, &cr)
	}
	c.blocksToRequest = append(c.blocksToRequest, state.blocksToRequest...)
	return c
}

// VerifAge moves every stored request timestamp d into the past: exactly what the passage of d
// does to the comparisons `now - t > limit`.
func (state *State) VerifAge(d time.Duration) {
	state.lock.Lock()
	defer state.lock.Unlock()
	if state.connectedTime != nil {
		t := state.connectedTime.Add(-d)
		state.connectedTime = &t
	}
	if state.headersRequested != nil {
		t := state.headersRequested.Add(-d)
		state.headersRequested = &t
	}
	for _, r := range state.blocksRequested {
		r.time = r.time.Add(-d)
	}
}

func (state *State) VerifHeadersRequested() bool {
	state.lock.Lock()
	defer state.lock.Unlock()
	return state.headersRequested != nil
}

type VerifMemPoolSnap struct {
	Inputs   map[bitcoin.Hash32][]bitcoin.Hash32 // outpoint hash -> spender txids
	Bodies   map[bitcoin.Hash32]bool             // txids whose body is held
	Known    map[bitcoin.Hash32]bool             // txids with any entry
	Trusted  map[bitcoin.Hash32]bool
	Requests map[bitcoin.Hash32]time.Time
}

func (memPool *MemPool) VerifSnapshot() VerifMemPoolSnap {
	memPool.mutex.Lock()
	defer memPool.mutex.Unlock()
	s := VerifMemPoolSnap{
		Inputs:   map[bitcoin.Hash32][]bitcoin.Hash32{},
		Bodies:   map[bitcoin.Hash32]bool{},
		Known:    map[bitcoin.Hash32]bool{},
		Trusted:  map[bitcoin.Hash32]bool{},
		Requests: map[bitcoin.Hash32]time.Time{},
	}
	for k, v := range memPool.inputs {
		s.Inputs[k] = append([]bitcoin.Hash32(nil), v...)
	}
	for k, v := range memPool.txs {
		s.Known[k] = true
		if len(v.outPoints) > 0 {
			s.Bodies[k] = true
		}
		if v.trusted {
			s.Trusted[k] = true
		}
	}
	for k, v := range memPool.requests {
		s.Requests[k] = v
	}
	return s
}

// VerifAge moves every tx request time d into the past.
func (memPool *MemPool) VerifAge(d time.Duration) {
	memPool.mutex.Lock()
	defer memPool.mutex.Unlock()
	for k, v := range memPool.requests {
		memPool.requests[k] = v.Add(-d)
	}
}

func (tracker *TxTracker) VerifTxids() []bitcoin.Hash32 {
	tracker.mutex.Lock()
	defer tracker.mutex.Unlock()
	var out []bitcoin.Hash32
	for k := range tracker.txids {
		out = append(out, k)
	}
	return out
}

// VerifClone deep-copies the mempool (for bounded-exhaustive search).
func (memPool *MemPool) VerifClone() *MemPool {
	memPool.mutex.Lock()
	defer memPool.mutex.Unlock()
	c := NewMemPool()
	for k, v := range memPool.txs {
		t := *v
		t.outPoints = append([]wire.OutPoint(nil), v.outPoints...)
		c.txs[k] = &t
	}
	for k, v := range memPool.inputs {
		c.inputs[k] = append([]bitcoin.Hash32(nil), v...)
	}
	for k, v := range memPool.requests {
		c.requests[k] = v
	}
	return c
}
