#!/bin/bash
# Applies every stored seeded change to /repo in turn, runs the quick check(s) of its property
# (plus extra checks named in meta.json "also_check"), restores /repo, and reports caught / MISSED.
# Writes .work/seed_sweep.txt and refreshes "caught_by" in each meta.json.
# usage: sweep_seeds.sh [seed-id ...]   (default: all)
cd /verif
out=/verif/.work/seed_sweep.txt; : > $out
ids="$@"; [ -z "$ids" ] && ids=$(ls seeded | grep '^C')
for id in $ids; do
  d=seeded/$id; prop=${id%-*}
  extra=$(python3 -c "import json;print(' '.join(json.load(open('$d/meta.json')).get('also_check',[])))")
  res=$(tools/try_seed.sh /verif/$d/patch.diff $prop $extra 2>&1)
  if echo "$res" | grep -q "patch does not apply"; then echo "$id NOAPPLY" | tee -a $out; continue; fi
  echo "$res" > .work/seed_last_$id.txt
  python3 - "$id" "$d" <<'PY' | tee -a $out
import sys,json,re
sid,d=sys.argv[1:]
txt=open('/verif/.work/seed_last_%s.txt'%sid).read()
cur=None; caught={}
for l in txt.split('\n'):
    m=re.match(r'=== (C\d\d) with',l)
    if m: cur=m.group(1); caught.setdefault(cur,[])
    m=re.match(r'\s*signature: (\S+)',l)
    if m and cur: caught[cur].append(m.group(1))
own=sid.split('-')[0]
flat=[s for p in caught for s in caught[p]]
meta=json.load(open('/verif/%s/meta.json'%d))
if flat:
    meta['caught_by']=sorted(set(flat))[:6]
    meta['caught_by_checks']=sorted(p for p in caught if caught[p])
    json.dump(meta,open('/verif/%s/meta.json'%d,'w'),indent=1)
    print("%s caught by %s: %s"%(sid, ",".join(meta['caught_by_checks']), " ".join(sorted(set(flat))[:3])))
elif 'BUILD-FAILED' in txt:
    print("%s BUILD-FAILED (patched tree does not compile with the harness: re-make the patch)"%sid)
else:
    print("%s MISSED"%sid)
PY
  rm -f .work/seed_last_$id.txt
done
echo DONE >> $out
