//go:build verif

package spynode

import (
	"fmt"
	"math/rand"
	"strings"
	"testing"

	"github.com/tokenized/pkg/bitcoin"
	"github.com/tokenized/pkg/wire"
	"github.com/tokenized/spynode/internal/verifkit"
)

// ---- C10: crash at any storage write / any single storage fault -------------------------------------------

func c10Scenario(r *rand.Rand, long int) c01Scenario {
	sc := c01Scenario{Batch: 2000, Parse: r.Intn(2) == 0}
	if long == 1 {
		// the 1000-header file rolls over while blocks are processed
		sc.Initial = []int{1001, 1002, 1003, 1001, 998, 2001}[r.Intn(6)]
		sc.Start = sc.Initial - 2 - r.Intn(4)
		if sc.Start > 995 && sc.Initial < 2000 {
			sc.Start = 995
		}
	} else if long == 2 {
		// the file rolls over on the header-only (pre-start) path
		sc.Initial = 1003 + r.Intn(3)
		sc.Start = sc.Initial - r.Intn(2)
	} else if long == 3 {
		// the start block is not mined yet: the node stores headers only, and reorganises them
		sc.Initial = 5 + r.Intn(8)
		sc.Start = sc.Initial + 6 + r.Intn(3)
	} else {
		sc.Initial = 4 + r.Intn(10)
		sc.Start = 1 + r.Intn(sc.Initial)
	}
	sc.Pol = simPolicy{fairness: 1 + r.Intn(6), procPct: []int{0, 50}[r.Intn(2)], permute: r.Intn(2) == 0}
	sc.PolDesc = fmt.Sprintf("fairness=%d procPct=%d permute=%v", sc.Pol.fairness, sc.Pol.procPct, sc.Pol.permute)
	sc.Steps = []c01Step{{Op: "settle"}}
	if long == 3 {
		if r.Intn(2) == 0 {
			sc.Steps = append(sc.Steps, c01Step{Op: "reorg", D: 1 + r.Intn(3), N: 1 + r.Intn(2)}, c01Step{Op: "settle"})
		} else {
			// ... and the peer returns to the branch it has just left before the node has settled
			sc.Steps = append(sc.Steps, c01Step{Op: "reorg", D: 1 + r.Intn(3), N: 1 + r.Intn(2)}, c01Step{Op: "partial", N: 2 + r.Intn(6)},
				c01Step{Op: "revive", N: 1 + r.Intn(2)}, c01Step{Op: "settle"})
		}
	}
	if long == 1 && sc.Initial > 1000 && sc.Initial < 1010 {
		// a reorg whose fork point lies in the previous header file
		d := sc.Initial - 1000 + 1 + r.Intn(3)
		sc.Steps = append(sc.Steps, c01Step{Op: "reorg", D: d, N: 1 + r.Intn(3)}, c01Step{Op: "settle"})
	}
	for i := 0; i < 2+r.Intn(3); i++ {
		switch r.Intn(5) {
		case 0, 1:
			sc.Steps = append(sc.Steps, c01Step{Op: "extend", N: 1 + r.Intn(3)}, c01Step{Op: "settle"})
		case 2, 3:
			sc.Steps = append(sc.Steps, c01Step{Op: "reorg", D: 1 + r.Intn(6), N: 1 + r.Intn(3)})
			if r.Intn(3) > 0 {
				sc.Steps = append(sc.Steps, c01Step{Op: "settle"})
			}
		default:
			sc.Steps = append(sc.Steps, c01Step{Op: "restart"}, c01Step{Op: "settle"})
		}
	}
	sc.Steps = append(sc.Steps, c01Step{Op: "settle"}, c01Step{Op: "shutdown"})
	return sc
}

// c10CheckImage: a fresh node on a storage image loads a linked single-branch chain and (if asked)
// converges to the peer's best chain.
func c10CheckImage(img *verifkit.Store, tree *verifkit.Tree, tip *verifkit.Block, startHash bitcoin.Hash32, converge bool, r *rand.Rand) (string, string) {
	e, err := newDD(ddOpt{store: img, startHash: startHash})
	if err != nil {
		return "load-failed", err.Error()
	}
	n := e.node
	top := n.blocks.LastHeight()
	var prev *verifkit.Block
	prevH := -10
	for h := 0; h <= top; h++ {
		if top > 80 && h > 5 && h < top-40 && h%8 != 0 && h%1000 > 3 && h%1000 < 997 {
			continue // long chains: sample the middle, keep the file boundaries
		}
		hash, err := n.blocks.Hash(e.ctx, h)
		if err != nil {
			return "loaded-chain-unreadable", fmt.Sprintf("Hash(%d) of %d: %v", h, top, err)
		}
		b := tree.ByHash[*hash]
		if b == nil {
			return "loaded-chain-unknown-block", fmt.Sprintf("height %d of %d holds a header the peer never announced", h, top)
		}
		if b.Height != h || (prev != nil && prevH == h-1 && b.Parent != prev) || (prev != nil && !prev.IsAncestorOf(b)) {
			return "loaded-chain-mixed-branches", fmt.Sprintf("height %d of %d: block of height %d that does not descend from the block loaded at %d", h, top, b.Height, prevH)
		}
		prev, prevH = b, h
		if hh, ok := n.blocks.Height(hash); !ok || hh != h {
			return "loaded-maps-not-inverse", fmt.Sprintf("height %d", h)
		}
	}
	if !converge {
		return "", ""
	}
	peer := newSimPeer(tree, tip)
	s := newDSSim(e, peer, r, simPolicy{fairness: 3})
	s.connect()
	s.settle("restart-on-image")
	for _, f := range s.finds {
		if f.prop == "C01" {
			return "no-convergence-after-restart/" + f.sig[4:], f.detail
		}
	}
	return "", ""
}

func TestVerif_C10(t *testing.T) {
	rep := verifkit.NewReport("C10")
	rep.Rule = "scenarios (DS engine, recorded by the storage wrapper): initial sync (short, and 998/1001/2001 blocks so that header files roll over), extensions in sync, reorgs of depth 1-6 (in sync, during sync, across a file boundary, among headers stored before the start block exists), clean restarts, shutdown saves. Crash points: for EVERY prefix i of the scenario's storage mutation log the image is rebuilt and a fresh node must load a hash-linked chain whose every header belongs to one branch of the peer's tree, and (every 5th i in the quick tier, all in thorough) converge to the peer's best chain. Faults: for EVERY j the j-th storage operation (read, write or delete) of the same deterministic scenario fails once; from that moment on the in-memory chain must pass the structural C02 probe after every scheduling step, or a fresh node on the surviving storage must load and converge. exhaustive=true refers to all i and all j per scenario (capped at 600 per scenario, 200 images / 150 sampled read faults for the 1000-2000-block scenarios; the scenario set is sampled). Non-trivial = every (scenario, crash point / fault) pair; distinct by (scenario, i or j)"
	rep.Assumptions = []string{"the DS engine is deterministic for a fixed seed, so operation j is the same operation in every replay", "verifkit.Store images are exact states after mutation i (copy-on-write)", "a storage fault is a returned error; torn writes are not modelled"}
	defer rep.Write()
	nsc := verifkit.N(6, 24)
	for ci := 0; ci < nsc; ci++ {
		if !verifkit.Mine(ci) {
			continue
		}
		seed := verifkit.Rand("C10", ci).Int63()
		long := 0
		if ci%6 == 2 {
			long = 1
		} else if ci%6 == 5 {
			long = 2
		} else if ci%6 == 3 {
			long = 3
		}
		sc := c10Scenario(rand.New(rand.NewSource(seed)), long)
		run := func(failAt int) (*dsSim, *verifkit.Store, bitcoin.Hash32, error) {
			var store *verifkit.Store
			var startHash bitcoin.Hash32
			s, err := c01RunHook(rand.New(rand.NewSource(seed+1)), sc, false, func(s *dsSim) {
				if store == nil {
					store = s.e.store
					startHash = s.e.cfg.StartHash
					store.StartLog()
					if failAt >= 0 {
						store.FailAt(failAt)
					}
				}
				if failAt >= 0 {
					// from the moment the fault fired the in-memory chain is probed after every step
					s.probeIf = store.FaultFired
				}
			})
			return s, store, startHash, err
		}
		// reference run
		s0, store0, startHash, err := run(-1)
		if err != nil {
			rep.Inconc(ci, err.Error())
			continue
		}
		for _, f := range s0.finds {
			rep.Event("reference_run_findings:"+f.sig, 1)
		}
		muts, ops := store0.Mutations(), store0.Ops()
		rep.Event("scenarios", 1)
		rep.Event("storage_mutations", int64(muts))
		rep.Event("storage_operations", int64(ops))
		tree, tip := s0.peer.tree, s0.peer.tip
		desc := fmt.Sprintf("scenario initial=%d start=%d %s steps=%v", sc.Initial, sc.Start, sc.PolDesc, sc.Steps)
		// ---- crash images
		stepI := 1
		maxI := 600
		if sc.Initial > 500 {
			maxI = 200 // a long chain: loading and converging an image costs a second
		}
		if muts > maxI {
			stepI = muts/maxI + 1
		}
		for i := 0; i <= muts; i += stepI {
			img := store0.Image(i)
			converge := verifkit.Thorough() || i%5 == 0 || i == muts
			rule, detail := c10CheckImage(img, tree, tip, startHash, converge, rand.New(rand.NewSource(seed+int64(i))))
			rep.Event("crash_images_checked", 1)
			if converge {
				rep.Event("crash_images_converged", 1)
			}
			rep.Case(fmt.Sprintf("crash/%d/%d", ci, i), true)
			if rule != "" {
				log := store0.Log()
				last := "(none)"
				for _, op := range log {
					if op.Mut == i-1 {
						last = fmt.Sprintf("%s %s (%d bytes)", op.Kind, op.Key, op.Len)
					}
				}
				rep.Finding(ci, "C10/crash/"+rule, fmt.Sprintf("crash after mutation %d of %d (last applied: %s): %s | %s", i, muts, last, detail, desc),
					map[string]interface{}{"scenario": sc, "crash_after_mutation": i, "last_mutation": last, "trace": s0.trace})
			}
		}
		// ---- single faults
		stepJ := 1
		maxJ := 600
		if sc.Initial > 500 && verifkit.Thorough() {
			maxJ = 150 // (reads sampled; every write and delete still fails once)
		}
		if sc.Initial > 500 && !verifkit.Thorough() {
			maxJ = 10 // a replay of a long scenario is expensive: reads are sampled in the quick tier, writes and deletes all fail once
		}
		if ops > maxJ {
			stepJ = ops/maxJ + 1
		}
		// operations to fail: every stepJ-th one, and always every write / delete
		var js []int
		for j, op := range store0.Log() {
			if j%stepJ == 0 || op.Kind != verifkit.OpRead {
				js = append(js, j)
			}
		}
		hangs := 0
		for _, j := range js {
			var s *dsSim
			var store *verifkit.Store
			var err error
			if hangs >= 2 {
				break
			}
			if hung := verifkit.Guarded(func() { s, store, _, err = run(j) }); hung != "" {
				hangs++
				rep.Finding(ci, "C10/fault/hang", fmt.Sprintf("with storage operation %d failing once the node code never returns (%s) | %s", j, hung, desc), map[string]interface{}{"scenario": sc, "failed_operation": j})
				continue
			}
			if err != nil {
				// the very first load failed because of the fault: a restart on the surviving
				// storage must work
				rule, detail := c10CheckImage(store0.Image(0), tree, tip, startHash, false, rand.New(rand.NewSource(seed)))
				if rule != "" {
					rep.Finding(ci, "C10/fault/startup/"+rule, detail, nil)
				}
				continue
			}
			rep.Event("faults_injected", 1)
			if !store.FaultFired() {
				rep.Event("faults_not_reached", 1)
				continue
			}
			rep.Case(fmt.Sprintf("fault/%d/%d", ci, j), true)
			// which operation failed
			failed := "?"
			for _, op := range store.Log() {
				if op.Err == verifkit.ErrInjected.Error() {
					failed = fmt.Sprintf("%s %s", op.Kind, op.Key)
				}
			}
			// (a) consistent chain in memory: probed after every step since the fault fired, and
			// once more at the end
			var during []simFinding
			for _, f := range s.finds {
				// the stored chain only: what the handlers were told is not the subject of C10
				if f.prop == "C02" && !strings.HasPrefix(f.sig, "C02/callback-") {
					during = append(during, f)
				}
			}
			s.finds = nil
			s.pol.probeEvery = true
			s.probeChain("after-fault")
			memOK := len(during) == 0
			for _, f := range s.finds {
				if f.prop == "C02" {
					memOK = false
				}
			}
			if len(during) > 0 {
				s.finds = append(during, s.finds...)
			}
			if memOK {
				rep.Event("faults_memory_consistent", 1)
				continue
			}
			// The node keeps running (a failed handler only logs, a failed ProcessBlock ends the
			// block processor but not the process): its in-memory chain must stay consistent.
			// Whether a process restart on the surviving storage would recover is reported too.
			rule, detail := c10CheckImage(s.e.store.Clone(), s.peer.tree, s.peer.tip, startHash, true, rand.New(rand.NewSource(seed+int64(j))))
			recov := "a restart on the surviving storage recovers"
			if rule != "" {
				recov = "a restart on the surviving storage does not recover either: " + rule + " " + detail
			}
			kind := failed
			for k := 0; k < len(kind); k++ {
				if kind[k] >= '0' && kind[k] <= '9' {
					kind = kind[:k]
					break
				}
			}
			rep.Finding(ci, "C10/fault/"+kind+"/memory-chain-inconsistent", fmt.Sprintf("operation %d (%s) failed once; the node kept running with an inconsistent in-memory chain: %s; %s | %s", j, failed, s.finds[0].detail, recov, desc),
				map[string]interface{}{"scenario": sc, "failed_operation": j, "operation": failed, "trace": s.trace})
		}
		rep.Exhaustive = stepI == 1 && stepJ == 1 && (rep.Exhaustive || rep.Evaluations > 0)
		if rep.WantSample() {
			rep.Sample(map[string]interface{}{"scenario": desc, "mutations": muts, "operations": ops})
		}
	}
}

// ---- C10, second clause, over hostile message sequences ---------------------------------------------------
//
// The DS scenarios have a well-behaved peer.  Here the C02 alphabet (header lists of every shape,
// requested and unrequested blocks, processor steps; start block found, or never found so that
// headers are stored directly) is replayed with one storage operation failing: the in-memory chain
// must pass the structural probe after every later step.

func c02RunFault(w *c02World, startHash bitcoin.Hash32, seq []int, failAt int) (*dsSim, *verifkit.Store, error) {
	store := verifkit.NewStore(false)
	e, err := newDD(ddOpt{startHash: startHash, store: store})
	if err != nil {
		return nil, nil, err
	}
	store.StartLog()
	if failAt >= 0 {
		store.FailAt(failAt)
	}
	peer := newSimPeer(w.tree, w.named["A4"])
	s := newDSSim(e, peer, rand.New(rand.NewSource(1)), simPolicy{})
	s.probeIf = func() bool { return failAt >= 0 && store.FaultFired() }
	for _, i := range seq {
		op := w.ops[i]
		if op.Kind == "step" {
			s.guard("block processor step", func() { s.e.step() })
			s.afterStep("step")
		} else {
			m := op.msg()
			s.guard("handleMessage("+op.Kind+" "+op.Names+")", func() { s.e.node.handleMessage(s.e.ctx, m) })
			s.afterStep(op.Kind + " " + op.Names)
		}
		s.e.drain()
		s.e.procErr = nil
		structural := false
		for _, f := range s.finds {
			if f.prop == "C02" {
				structural = true
			}
		}
		if structural {
			break
		}
	}
	return s, store, nil
}

func TestVerif_C10Hostile(t *testing.T) {
	rep := verifkit.NewReport("C10")
	defer rep.Write()
	w := c02Build()
	// a second alphabet: header lists of a 1005-block chain (the 1000-header file rolls over while
	// headers are stored directly), delivered more than once as a peer answering two polls does
	wl := &c02World{tree: verifkit.NewTree(), named: map[string]*verifkit.Block{}}
	{
		chain := wl.tree.ExtendN(wl.tree.Genesis, 1005).Chain()
		wl.named["A4"] = chain[1005]
		list := func(name string, from, to int) c02Op {
			bs := chain[from : to+1]
			return c02Op{Kind: "headers", Names: name, msg: func() wire.Message { return headersMsg(bs...) }}
		}
		wl.ops = []c02Op{list("1..1005", 1, 1005), list("1..1005", 1, 1005), list("990..1005", 990, 1005), list("998..1001", 998, 1001),
			list("999..1005", 999, 1005), list("1000..1005", 1000, 1005), list("1..999", 1, 999), {Kind: "step"}}
	}
	n := verifkit.N(3000, 300000)
	for ci := 0; ci < n; ci++ {
		if !verifkit.Mine(ci) {
			continue
		}
		ci := ci
		verifkit.RunCase(rep, ci, func() {
			r := verifkit.Rand("C10/hostile", ci)
			if ci%25 == 7 {
				// roll-over family
				var start bitcoin.Hash32
				r.Read(start[:])
				seq := []int{0}
				for i := 0; i < 2+r.Intn(4); i++ {
					seq = append(seq, r.Intn(len(wl.ops)))
				}
				_, store0, err := c02RunFault(wl, start, seq, -1)
				if err != nil {
					rep.Inconc(ci, err.Error())
					return
				}
				// fail one of the writes (there are few), or any operation
				var writes []int
				for j, op := range store0.Log() {
					if op.Kind == verifkit.OpWrite {
						writes = append(writes, j)
					}
				}
				j := r.Intn(store0.Ops())
				if len(writes) > 0 && r.Intn(4) > 0 {
					j = writes[r.Intn(len(writes))]
				}
				s, store, err := c02RunFault(wl, start, seq, j)
				if err != nil || !store.FaultFired() {
					rep.Case("rollover/fault-not-reached", false)
					return
				}
				rep.Event("hostile_rollover_faults_injected", 1)
				for _, f := range s.finds {
					if f.prop == "C02" && !strings.HasPrefix(f.sig, "C02/callback-") {
						rep.Finding(ci, "C10/fault-hostile/rollover/memory-chain-inconsistent", fmt.Sprintf("storage operation %d failed once while 1005 headers were stored directly and delivered again; afterwards: %s | sequence: %s", j, f.detail, c02SeqString(wl, seq)), map[string]interface{}{"sequence": c02SeqString(wl, seq), "failed_operation": j})
						break
					}
				}
				rep.Case(fmt.Sprintf("rollover/%d/%d", len(seq), j%7), true)
				return
			}
			var start bitcoin.Hash32
			startName := []string{"A1", "A3", "B3", "never"}[r.Intn(4)]
			if startName == "never" {
				r.Read(start[:]) // no block has this hash: every header is stored directly
			} else {
				start = w.named[startName].Hash
			}
			seq := make([]int, 12+r.Intn(20))
			for i := range seq {
				seq[i] = r.Intn(len(w.ops))
			}
			ref, store0, err := c02RunFault(w, start, seq, -1)
			if err != nil {
				rep.Inconc(ci, err.Error())
				return
			}
			_ = ref
			ops := store0.Ops()
			if ops == 0 {
				rep.Case("no-storage-operation", false)
				return
			}
			j := r.Intn(ops)
			s, store, err := c02RunFault(w, start, seq, j)
			if err != nil {
				rep.Case("fault-at-load", false)
				return
			}
			rep.Event("hostile_faults_injected", 1)
			if !store.FaultFired() {
				rep.Event("hostile_faults_not_reached", 1)
				return
			}
			failed := "?"
			for _, op := range store.Log() {
				if op.Err == verifkit.ErrInjected.Error() {
					failed = fmt.Sprintf("%s %s", op.Kind, op.Key)
				}
			}
			kind := failed
			for k := 0; k < len(kind); k++ {
				if kind[k] >= '0' && kind[k] <= '9' {
					kind = kind[:k]
					break
				}
			}
			for _, f := range s.finds {
				if f.prop == "C02" && !strings.HasPrefix(f.sig, "C02/callback-") {
					rep.Finding(ci, "C10/fault-hostile/"+kind+"/memory-chain-inconsistent", fmt.Sprintf("storage operation %d (%s) failed once during a hostile message sequence (start block %s); afterwards: %s | sequence: %s", j, failed, startName, f.detail, c02SeqString(w, seq)), map[string]interface{}{"start": startName, "sequence": c02SeqString(w, seq), "failed_operation": failed})
					break
				}
			}
			rep.Case(fmt.Sprintf("%s/%s/%d", startName, kind, len(seq)/8), true)
			if rep.WantSample() {
				rep.Sample(map[string]interface{}{"engine": "DD hostile sequence + one storage fault", "start": startName, "failed_operation": failed, "sequence": c02SeqString(w, seq)})
			}
		})
	}
}
